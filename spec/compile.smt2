; compile package: schema filters (C20).
; The value of a filter on a schema node. The three filters defined by the package have their meaning
; fixed here (from the property statement: configuration only / operational commands / state only);
; any other filter is an arbitrary but fixed predicate (filters are required to be pure).
(declare-fun node_config (Iface) Bool)   ; schema.Node.Config()
(declare-fun node_isopd (Iface) Bool)    ; the node is an opd:command, opd:argument or opd:option
(declare-fun apply_other_filter (Int Iface) Bool)
(define-fun apply_filter ((f Int) (sn Iface)) Bool
  (ite (= f fn$compile.IsConfig) (node_config sn)
  (ite (= f fn$compile.IsOpd) (node_isopd sn)
  (ite (= f fn$compile.IsState) (and (not (node_config sn)) (not (node_isopd sn)))
       (apply_other_filter f sn)))))
(declare-fun node_type (Iface) Int)      ; parse.Node.Type()
; parse-tree accessors (pure): the first child of a given statement type (nil if none) and typed arguments
(declare-fun node_child_by_type (Iface Int) Iface)
(declare-fun node_argbool (Iface) Bool)
(declare-fun node_argstatus (Iface) String)
(declare-fun type_default (Iface) String)
(declare-fun type_hasdefault (Iface) Bool)
(declare-fun node_module (Iface) String) ; schema.Node.Module()
; parse.Node accessors (pure)
(declare-fun node_root (Iface) Iface)        ; Root(): the module in which the node is textually defined
(declare-fun node_usesroot (Iface) Iface)    ; UsesRoot(): the module that uses it (grouping copies), else Root()
(declare-fun node_prefix (Iface) String)     ; Prefix()
(declare-fun node_ns (Iface) String)         ; Ns()
(declare-fun node_name (Iface) String)       ; Name()
(declare-fun node_children_of (Iface Int) Slice) ; ChildrenByType(t)
(declare-fun node_hasdef (Iface) Bool) ; HasDef(): the statement has a default substatement
(declare-fun node_def (Iface) String) ; Def(): its argument
(declare-fun node_mod_by_prefix (Iface String) Iface)
(declare-fun node_mod_by_prefix_err (Iface String) Iface)
(declare-fun node_pfx_ns (Iface String) String)   ; YangPrefixToNamespace(prefix): namespace a prefix denotes for this statement
(declare-fun node_pfx_err (Iface String) Iface)
(declare-fun node_path (Iface) String)            ; Path(): argument of the path substatement
; ---- features (C14). feat_on(checker, "module:feature"): the configured state of a feature as the compiler's
; FeaturesChecker reports it; ref_mod / ref_node: the module and the definition a reference statement (if-feature,
; base, ...) resolves to from within module m (getModuleAndReference); node_nchildren_of / node_child_of: the
; substatements of one kind, by position. feat_valid is the property's relation: a feature holds iff it is switched
; on and every feature it depends on (if-feature, resolved in the module of EACH definition) holds.
(declare-fun feat_on (Iface String) Bool)
(declare-fun ref_mod (Iface Iface Int) Iface)
(declare-fun ref_node (Iface Iface Int) Iface)
(declare-fun node_nchildren_of (Iface Int) Int)
(declare-fun node_child_of (Iface Int Int) Iface)
(declare-fun feat_valid (Iface Iface Iface) Bool)
; pattern statements (C13/C16): the compiled regular expression of a pattern statement, the pattern rows of a string type
(declare-fun node_argpattern (Iface) Int)
(declare-fun str_pats (Iface) Slice)
(declare-fun node_nchildren (Iface) Int)        ; Children(), by position
(declare-fun node_childat (Iface Int) Iface)
(declare-fun node_grouping (Iface String) Iface)   ; LookupGrouping(name): the grouping visible from the node under that name
(declare-fun node_hasgrouping (Iface String) Bool)
(declare-fun node_lookup_child (Iface Int String) Iface) ; LookupChild(type, name): the substatement of that keyword with that argument
(declare-fun node_cardend (Iface Int) Int)                ; GetCardinalityEnd(type): upper end of the cardinality of that substatement
(declare-fun node_notsupported (Iface) Bool)             ; NotSupported(): deviated not-supported
(declare-fun feat_ifon (Iface) Bool)                     ; CheckIfFeature(if-feature statement): the feature it names is valid
(declare-fun mach_expr (Int) String)                 ; the expression text an xpath.Machine was compiled from
(declare-fun node_argdate (Iface) String)       ; ArgDate()
(declare-fun fc_status (Iface String) Int) ; FeaturesChecker.Status(feature): what one feature checker says about a feature (DISABLED 0, ENABLED 1, NOTPRESENT 2)
