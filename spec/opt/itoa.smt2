; Optional spec module: itoa(x), the decimal text of an integer (what fmt prints for %d and strconv.Itoa returns).
(define-fun itoa ((x Int)) String (ite (< x 0) (str.++ "-" (str.from_int (- x))) (str.from_int x)))
