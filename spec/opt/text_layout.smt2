; Optional spec module (included only in the scripts of functions whose contracts or bodies mention one of its symbols).
;
; lastindex(s, t) = strings.LastIndex(s, t): "the index of the last instance of substr in s, or -1 if substr is not
; present in s" (documentation of package strings), stated as: it is an occurrence, no later occurrence exists.
(declare-fun lastindex (String String) Int)
(assert (forall ((s String) (t String)) (!
  (and (<= (- 1) (lastindex s t))
       (=> (>= (lastindex s t) 0) (and (<= (+ (lastindex s t) (str.len t)) (str.len s)) (= (str.substr s (lastindex s t) (str.len t)) t)))
       (=> (str.suffixof t s) (= (lastindex s t) (- (str.len s) (str.len t))))   ; consequence of the two clauses around it, stated to spare the solver the instantiation
       (forall ((j Int)) (=> (and (< (lastindex s t) j) (<= 0 j) (<= (+ j (str.len t)) (str.len s))) (not (= (str.substr s j (str.len t)) t)))))
  :pattern ((lastindex s t)))))
; cols_upto(s, p): display width of the first p bytes of s where a tab counts 8 columns and every other character 1
; (the convention of RFC 6020 6.1.3 as implemented by tabSpaces/wsSpaces); utf8_rune/utf8_width are the decoding
; functions of the `range` over a string.
(declare-fun cols_upto (String Int) Int)
(assert (forall ((s String)) (! (= (cols_upto s 0) 0) :pattern ((cols_upto s 0)))))
(assert (forall ((s String) (p Int)) (!
  (=> (and (<= 0 p) (< p (str.len s)))
      (= (cols_upto s (+ p (utf8_width s p))) (+ (cols_upto s p) (ite (= (utf8_rune s p) 9) 8 1))))
  :pattern ((utf8_width s p)))))
; strcount(s, t) = strings.Count(s, t): "the number of non-overlapping instances of substr in s" - kept uninterpreted
; (1 + strcount(prefix, "\n") is the definition of "line number" used by the contracts); only its range (0 .. len(s)+1) is stated.
(declare-fun strcount (String String) Int)
(assert (forall ((s String) (t String)) (! (and (>= (strcount s t) 0) (<= (strcount s t) (+ (str.len s) 1))) :pattern ((strcount s t)))))
; runecount(s) = utf8.RuneCountInString(s): the number of characters of a string (uninterpreted)
(declare-fun runecount (String) Int)
