; instants of time.Time values produced by time.Parse (see externals.contracts)
(declare-fun time_of (Int) S$time.Time)
(declare-fun time_key (S$time.Time) Int)
(assert (forall ((k Int)) (! (= (time_key (time_of k)) k) :pattern ((time_of k)))))
