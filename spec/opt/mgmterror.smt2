; Optional spec module: observations on github.com/danos/mgmterror values and github.com/danos/utils/pathutil.
; mgmt_badelem(e): the bad-element info value an UnknownElement error was constructed with (its constructor argument).
(declare-fun mgmt_badelem (Int) String)
; pathstr(a, off, n) = pathutil.Pathstr of the n strings a[off..off+n): "/" + escaped element, concatenated; uninterpreted
; except for the empty path.
(declare-fun pathstr ((Array Int String) Int Int) String)
(assert (forall ((a (Array Int String)) (o Int)) (! (= (pathstr a o 0) "") :pattern ((pathstr a o 0)))))
