; XPath 1.0 value model and conversions (W3C REC-xpath-19991116, sections 3.4, 3.5, 4.2-4.4)
; transcribed from the recommendation, not from the code.
;
; A Datum is an interface value (Iface); its dynamic type gives the XPath type.
(define-fun xp_isnum ((d Iface)) Bool (= (i_tag d) tag$xpath.numDatum))
(define-fun xp_isbool ((d Iface)) Bool (= (i_tag d) tag$xpath.boolDatum))
(define-fun xp_islit ((d Iface)) Bool (= (i_tag d) tag$xpath.litDatum))
(define-fun xp_isnset ((d Iface)) Bool (= (i_tag d) tag$xpath.nodesetDatum))
(define-fun xp_isds ((d Iface)) Bool (= (i_tag d) tag$xpath.datumSliceDatum))
(define-fun xp_isscalar ((d Iface)) Bool (or (xp_isnum d) (xp_isbool d) (xp_islit d)))
(define-fun xp_num ((d Iface)) F64 (f$xpath.numDatum$num (ub$S$xpath.numDatum (i_box d))))
(define-fun xp_bool ((d Iface)) Bool (f$xpath.boolDatum$boolVal (ub$S$xpath.boolDatum (i_box d))))
(define-fun xp_lit ((d Iface)) String (f$xpath.litDatum$lit (ub$S$xpath.litDatum (i_box d))))
(define-fun xp_mknum ((x F64)) Iface (mk_iface tag$xpath.numDatum (bx$S$xpath.numDatum (mk$xpath.numDatum x))))
(define-fun xp_mkbool ((x Bool)) Iface (mk_iface tag$xpath.boolDatum (bx$S$xpath.boolDatum (mk$xpath.boolDatum x))))
(define-fun xp_mklit ((x String)) Iface (mk_iface tag$xpath.litDatum (bx$S$xpath.litDatum (mk$xpath.litDatum x))))

(define-fun fp_one () F64 ((_ to_fp 11 53) RNE 1.0))
(define-fun fp_zero () F64 (_ +zero 11 53))
(define-fun fp_nan () F64 (_ NaN 11 53))

; 4.4 number(string): "a string that consists of optional whitespace followed by an optional minus sign
; followed by a Number followed by whitespace is converted to the IEEE 754 number that is nearest ...;
; any other string is converted to NaN".  Kept abstract here; its lexical part is xp_is_number_lexeme.
(declare-fun xp_str2num (String) F64)
; 4.2 string(number)
; "the number is represented in decimal form as a Number [no exponent] ... there should be as many more digits as are
; needed to uniquely distinguish the number from all other IEEE 754 numeric values": the shortest decimal
; representation that reads back as the same number, without exponent - shortest_decimal, which is also what
; strconv.FormatFloat(x, 'f', -1, 64) is documented to produce (see externals.contracts).
(declare-fun shortest_decimal (F64) String)
(define-fun xp_num2str_finite ((x F64)) String (shortest_decimal x))
(assert (forall ((x F64)) (! (=> (not (or (fp.isNaN x) (fp.isInfinite x)))
   (and (not (str.contains (shortest_decimal x) "e")) (not (str.contains (shortest_decimal x) "E")) (not (str.contains (shortest_decimal x) "+"))))
   :pattern ((shortest_decimal x)))))
; strconv.FormatFloat prints a NaN as "NaN" (documentation of FormatFloat / fmt): the implementation relies on it
(assert (forall ((x F64)) (! (=> (fp.isNaN x) (= (shortest_decimal x) "NaN")) :pattern ((shortest_decimal x)))))
(define-fun xp_num2str ((x F64)) String
  (ite (fp.isNaN x) "NaN"
  (ite (fp.isZero x) "0"
  (ite (fp.isInfinite x) (ite (fp.isPositive x) "Infinity" "-Infinity")
       (xp_num2str_finite x)))))
; string-value of a node-set (first node in document order; empty string when empty) - supplied by the data tree
(declare-fun xp_nset_str (Iface) String)
(declare-fun xp_nset_nonempty (Iface) Bool)
(declare-fun xp_other_num (Iface) F64)
(declare-fun xp_other_bool (Iface) Bool)
(declare-fun xp_other_str (Iface) String)

; 4.4 number()
(define-fun xp_number ((d Iface)) F64
  (ite (xp_isnum d) (xp_num d)
  (ite (xp_isbool d) (ite (xp_bool d) fp_one fp_zero)
  (ite (xp_islit d) (xp_str2num (xp_lit d))
  (ite (xp_isnset d) (xp_str2num (xp_nset_str d))
       (xp_other_num d))))))
; 4.3 boolean(): number true iff neither zero nor NaN; node-set iff non-empty; string iff length non-zero
(define-fun xp_boolean ((d Iface)) Bool
  (ite (xp_isnum d) (not (or (fp.isZero (xp_num d)) (fp.isNaN (xp_num d))))
  (ite (xp_isbool d) (xp_bool d)
  (ite (xp_islit d) (> (str.len (xp_lit d)) 0)
  (ite (xp_isnset d) (xp_nset_nonempty d)
       (xp_other_bool d))))))
; 4.2 string()
(define-fun xp_string ((d Iface)) String
  (ite (xp_islit d) (xp_lit d)
  (ite (xp_isbool d) (ite (xp_bool d) "true" "false")
  (ite (xp_isnum d) (xp_num2str (xp_num d))
  (ite (xp_isnset d) (xp_nset_str d)
       (xp_other_str d))))))

; 3.5 arithmetic: IEEE 754 double, round to nearest even.  mod: remainder from a truncating division.
(define-fun xp_add ((a F64) (b F64)) F64 (fadd a b))
(define-fun xp_sub ((a F64) (b F64)) F64 (fsub a b))
(define-fun xp_mul ((a F64) (b F64)) F64 (fmul a b))
(define-fun xp_div ((a F64) (b F64)) F64 (fdiv a b))
(define-fun xp_neg ((a F64)) F64 (fp.neg a))

; 3.4 comparisons of two scalars (neither operand a node-set)
; =, != : if either is boolean compare as booleans; else if either is a number compare as numbers; else strings
(define-fun xp_eq_scalar ((a Iface) (b Iface)) Bool
  (ite (or (xp_isbool a) (xp_isbool b)) (= (xp_boolean a) (xp_boolean b))
  (ite (or (xp_isnum a) (xp_isnum b)) (fp.eq (xp_number a) (xp_number b))
       (= (xp_string a) (xp_string b)))))
(define-fun xp_ne_scalar ((a Iface) (b Iface)) Bool
  (ite (or (xp_isbool a) (xp_isbool b)) (not (= (xp_boolean a) (xp_boolean b)))
  (ite (or (xp_isnum a) (xp_isnum b)) (not (fp.eq (xp_number a) (xp_number b)))
       (not (= (xp_string a) (xp_string b))))))
; <, <=, >, >= : both operands converted to numbers
(define-fun xp_lt_scalar ((a Iface) (b Iface)) Bool (fp.lt (xp_number a) (xp_number b)))
(define-fun xp_le_scalar ((a Iface) (b Iface)) Bool (fp.leq (xp_number a) (xp_number b)))
(define-fun xp_gt_scalar ((a Iface) (b Iface)) Bool (fp.gt (xp_number a) (xp_number b)))
(define-fun xp_ge_scalar ((a Iface) (b Iface)) Bool (fp.geq (xp_number a) (xp_number b)))

; 4.4 floor / ceiling / round
(define-fun xp_floor ((x F64)) F64 (fp.roundToIntegral RTN x))
(define-fun xp_ceiling ((x F64)) F64 (fp.roundToIntegral RTP x))
; round: the integer closest to the argument; ties towards positive infinity; NaN, +-0, +-oo unchanged;
; "if the argument is less than zero, but greater than or equal to -0.5, then negative zero is returned"
(define-fun xp_round ((x F64)) F64
  (ite (or (fp.isNaN x) (fp.isInfinite x) (fp.isZero x)) x
  (ite (and (fp.lt x fp_zero) (fp.geq x ((_ to_fp 11 53) RNE (- 0.5)))) (_ -zero 11 53)
       (let ((f (fp.roundToIntegral RTN x)))
         (ite (fp.geq (fp.sub RNE x f) ((_ to_fp 11 53) RNE 0.5)) (fp.roundToIntegral RTP x) f)))))
; mod: "returns the remainder from a truncating division" (same as the % operator in Java/ECMAScript):
; IEEE 754 fmod.  Kept abstract; Go's math.Mod is documented to compute exactly this function.
(declare-fun ext$math.Mod (F64 F64) F64)
(define-fun xp_mod ((a F64) (b F64)) F64 (ext$math.Mod a b))
; 4.2 string functions (on byte strings; character-level functions string-length/substring/translate are
; specified on characters and treated in the bounded stand-in)
(define-fun xp_contains ((a String) (b String)) Bool (str.contains a b))
(define-fun xp_starts_with ((a String) (b String)) Bool (str.prefixof b a))
; substring-before: the substring of the first argument that precedes the first occurrence of the second
; argument, or the empty string if the first does not contain the second
(define-fun xp_substring_before ((a String) (b String)) String
  (ite (str.contains a b) (str.substr a 0 (str.indexof a b 0)) ""))
; substring-after: the substring that follows the first occurrence, or the empty string
(define-fun xp_substring_after ((a String) (b String)) String
  (ite (str.contains a b) (str.substr a (+ (str.indexof a b 0) (str.len b)) (str.len a)) ""))
; The data tree as seen through the Entry interface (C02/C05): results of Navigate, GetValue, FollowLeafRef, GetSdcpbPath
(declare-fun tree_nav (Iface Int) Iface)
(declare-fun tree_nav_err (Iface Int) Iface)
(declare-fun tree_val (Iface) Iface)
(declare-fun tree_val_err (Iface) Iface)
(declare-fun tree_lref (Iface) Iface)
(declare-fun tree_lref_err (Iface) Iface)
(declare-fun tree_path (Iface) Int)
; XML 1.0 (fifth edition) productions [4] NameStartChar and [4a] NameChar without ':' (Namespaces in XML: NCName),
; used by XPath 1.0 NameTest / QName; and XPath 1.0 [39] ExprWhitespace (S).
(define-fun xml_ncnamestart ((c Int)) Bool
  (or (and (<= 65 c) (<= c 90)) (= c 95) (and (<= 97 c) (<= c 122))
      (and (<= 192 c) (<= c 214)) (and (<= 216 c) (<= c 246)) (and (<= 248 c) (<= c 767))
      (and (<= 880 c) (<= c 893)) (and (<= 895 c) (<= c 8191)) (and (<= 8204 c) (<= c 8205))
      (and (<= 8304 c) (<= c 8591)) (and (<= 11264 c) (<= c 12271)) (and (<= 12289 c) (<= c 55295))
      (and (<= 63744 c) (<= c 64975)) (and (<= 65008 c) (<= c 65533)) (and (<= 65536 c) (<= c 983039))))
(define-fun xml_ncnamechar ((c Int)) Bool
  (or (xml_ncnamestart c) (= c 45) (= c 46) (and (<= 48 c) (<= c 57)) (= c 183)
      (and (<= 768 c) (<= c 879)) (and (<= 8255 c) (<= c 8256))))
(define-fun xp_whitespace ((c Int)) Bool (or (= c 32) (= c 9) (= c 13) (= c 10)))
; RFC 6020 section 12: identifier = (ALPHA / "_") *(ALPHA / DIGIT / "_" / "-" / ".")
(define-fun rfc_idstart ((c Int)) Bool (or (and (<= 65 c) (<= c 90)) (= c 95) (and (<= 97 c) (<= c 122))))
(define-fun rfc_idchar ((c Int)) Bool (or (rfc_idstart c) (= c 45) (= c 46) (and (<= 48 c) (<= c 57))))
