; Schema path validation (C17). sch_accepts(n, allow, arr, from, to): schema node n accepts the token path
; arr[from..to) when incomplete paths are (not) allowed. It is the relation computed by Node.Validate; the
; contracts of the node kinds state its defining equations (from the property statement).
(declare-fun sch_accepts (Iface Bool (Array Int String) Int Int) Bool)
; acceptance of the one-token path [s] (used for list keys); it is the same relation on a one-element array
(declare-fun sch_accepts1 (Iface Bool String) Bool)
(assert (forall ((n Iface) (a Bool) (arr (Array Int String)) (i Int) (j Int))
  (! (=> (= j (+ i 1)) (= (sch_accepts n a arr i j) (sch_accepts1 n a (select arr i)))) :pattern ((sch_accepts n a arr i j)))))
(declare-fun ctx_allows (Iface) Bool)        ; ValidateCtx.AllowIncompletePaths()
(declare-fun type_accepts (Iface String) Bool) ; Type.Validate accepts the value

; ---- structure of a compiled schema node as its accessors report it (C18); heap-independent views of
; Children(), Choices(), Child(name), Mandatory(), Limit().Min, Presence()
(declare-fun sch_nchildren (Iface) Int)
(declare-fun sch_child (Iface Int) Iface)
(declare-fun sch_nchoices (Iface) Int)
(declare-fun sch_choice (Iface Int) Iface)
(declare-fun sch_childbyname (Iface String) Iface)
(declare-fun sch_mandatory (Iface) Bool)
(declare-fun sch_min (Iface) Int)
(declare-fun sch_presence (Iface) Bool)
(declare-fun sch_card_err (Iface Int) Iface)     ; CheckCardinality(path, n): the error for n entries / values (nil when n is within min- and max-elements); the path only words the message
; "something mandatory is missing" relations of the property statement; their defining equations are the axioms
; deepMandDef / choiceMissingDef / caseMissingDef in /repo/schema/zz_verif_contracts.go
(declare-fun deep_mand (Iface) Bool)                              ; below an absent non-presence container
(declare-fun choice_missing ((Array String Bool) Iface) Bool)     ; among the choices of an existing node, given the configured child names
(declare-fun case_missing ((Array String Bool) Iface) Bool)       ; among the cases of a choice with a configured member
; ---- data nodes as the validator sees them (xnode): schema(), names of children(), path()
(declare-fun xn_schema (Iface) Iface)
(declare-fun xn_nchildren (Iface) Int)
(declare-fun dn_nvalues (Iface) Int)            ; number of values of a leaf / leaf-list data node
(declare-fun xn_childname (Iface Int) String)   ; YangDataName of the i-th child
(declare-fun xn_dataname (Iface) String)         ; YangDataName()
(declare-fun xn_nameset (Iface) (Array String Bool)) ; the set of the children's names (axiom xnNamesetDef)
; ---- unique (C18): identity of the i-th child entry, the unique statements of a list, and the value tuple
; (getUniqueKey) of an entry for one unique statement ("" when some leaf of the set is absent)
(declare-fun xn_ident (Iface) Int)
(declare-fun xn_childident (Iface Int) Int)
(declare-fun sch_nuniques (Iface) Int)
(declare-fun sch_unique (Iface Int) Slice)
(declare-fun unique_key (Int Slice) String)     ; getUniqueKey: the key of an entry for one unique set ...
(declare-fun unique_has (Int Slice) Bool)       ; ... and whether the entry has every leaf of the set
(declare-fun sch_defaultcase (Iface) String)     ; Choice.DefaultCase()
