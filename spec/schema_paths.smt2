; Schema path validation (C17). sch_accepts(n, allow, arr, from, to): schema node n accepts the token path
; arr[from..to) when incomplete paths are (not) allowed. It is the relation computed by Node.Validate; the
; contracts of the node kinds state its defining equations (from the property statement).
(declare-fun sch_accepts (Iface Bool (Array Int String) Int Int) Bool)
; acceptance of the one-token path [s] (used for list keys); it is the same relation on a one-element array
(declare-fun sch_accepts1 (Iface Bool String) Bool)
(assert (forall ((n Iface) (a Bool) (arr (Array Int String)) (i Int) (j Int))
  (! (=> (= j (+ i 1)) (= (sch_accepts n a arr i j) (sch_accepts1 n a (select arr i)))) :pattern ((sch_accepts n a arr i j)))))
(declare-fun ctx_allows (Iface) Bool)        ; ValidateCtx.AllowIncompletePaths()
(declare-fun type_accepts (Iface String) Bool) ; Type.Validate accepts the value
