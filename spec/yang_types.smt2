; RFC 6020 section 9: lexical and value spaces of the built-in types.
; 9.2.1 integer lexical representation: "an optional sign ('+' or '-'), followed by a sequence of decimal digits"
(declare-fun int_lex (String) Bool)
; unsigned types share the representation but Go's ParseUint rejects any sign
(declare-fun uint_lex (String) Bool)
(declare-fun int_val (String) Int)
; 9.2: int8/16/32/64 and uint8/16/32/64 value ranges (bit size 0 means 64 as in strconv)
(define-fun int_fits ((v Int) (bits Int)) Bool
  (ite (= bits 8) (and (<= (- 128) v) (<= v 127))
  (ite (= bits 16) (and (<= (- 32768) v) (<= v 32767))
  (ite (= bits 32) (and (<= (- 2147483648) v) (<= v 2147483647))
       (and (<= (- 9223372036854775808) v) (<= v 9223372036854775807))))))
(define-fun uint_fits ((v Int) (bits Int)) Bool
  (ite (= bits 8) (and (<= 0 v) (<= v 255))
  (ite (= bits 16) (and (<= 0 v) (<= v 65535))
  (ite (= bits 32) (and (<= 0 v) (<= v 4294967295))
       (and (<= 0 v) (<= v 18446744073709551615))))))

; Range boundary slices (schema.RangeBoundarySlicer): an ordered collection of [start,end] pairs whose
; boundaries are int64, uint64 or float64 values boxed in interface values. The order used by the
; range checks is the numeric order of the boundary type.
(declare-fun rb_len (Iface) Int)
(declare-fun rb_start (Iface Int) Iface)
(declare-fun rb_end (Iface Int) Iface)
(define-fun rb_lt ((s Iface) (a Iface) (b Iface)) Bool
  (ite (= (i_tag s) tag$schema.DrbSlice) (fp.lt (ub$F64 (i_box a)) (ub$F64 (i_box b)))
       (< (ub$Int (i_box a)) (ub$Int (i_box b)))))
(define-fun rb_gt ((s Iface) (a Iface) (b Iface)) Bool
  (ite (= (i_tag s) tag$schema.DrbSlice) (fp.gt (ub$F64 (i_box a)) (ub$F64 (i_box b)))
       (> (ub$Int (i_box a)) (ub$Int (i_box b)))))
; source text of a compiled regular expression (regexp.Regexp.String())
(declare-fun re_source (Int) String)
; decimal64 (RFC 6020 9.3): dec64_ok(s, fd) is acceptance by the lexical / 64-bit check validateDecimal64String;
; the float64 nearest to the literal is what the range comparison uses (strconv.ParseFloat: "the nearest
; floating-point number rounded using IEEE754 unbiased rounding"). A decimal literal never parses to NaN.
(declare-fun ext$strconv.ParseFloat$0 (String Int) F64)
(define-fun parse_float ((s String)) F64 (ext$strconv.ParseFloat$0 s 64))
(declare-fun dec64_ok (String Int) Bool)
(assert (forall ((s String) (fd Int)) (! (=> (dec64_ok s fd) (not (fp.isNaN (parse_float s)))) :pattern ((dec64_ok s fd)))))
; the length restriction object of a string type (schema.String.Len()): a pointer to a schema.Length
(declare-fun str_lenptr (Iface) Int)
; lexdec(s): s is a YANG integer-value or decimal-value (RFC 6020 section 12), i.e. it matches
; -?(0|[1-9][0-9]*)(\.[0-9]+)?  (parse.rangeBoundaryRe). Such a literal never parses to NaN or an infinity.
(declare-fun lexdec (String) Bool)
(assert (forall ((s String)) (! (=> (lexdec s) (and (not (fp.isNaN (parse_float s))) (not (fp.isInfinite (parse_float s))))) :pattern ((lexdec s)))))
; re_matches(re, s): the compiled regular expression re (a *regexp.Regexp) matches s (regexp.(*Regexp).MatchString)
(declare-fun re_matches (Int String) Bool)
; revision dates (C09): date_ok(s) - s is an RFC 3339 date-time that time.Parse accepts; date_key(s) - its instant
; (seconds); every "YYYY-MM-DDT00:00:00Z" instant lies before 9999-12-31T23:59:59Z.
(declare-fun date_ok (String) Bool)
(declare-fun date_key (String) Int)
(assert (forall ((s String)) (! (=> (and (date_ok s) (str.suffixof "T00:00:00Z" s)) (< (date_key s) (date_key "9999-12-31T23:59:59Z"))) :pattern ((date_key s)))))
(assert (date_ok "9999-12-31T23:59:59Z"))
