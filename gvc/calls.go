package main

import (
	"sort"
	"regexp"
	"fmt"
	"go/ast"
	"go/types"
	"strings"

	"golang.org/x/tools/go/ssa"
)

// Arg is a call argument: a value term or (for pointers into values) a location.
type Arg struct {
	t   Term
	loc *Loc
}

type panicCtx struct {
	val       string
	recovered bool
}

func (g *Gen) argOf(f *Frame, v ssa.Value) Arg {
	if l, ok := f.locs[v]; ok {
		return Arg{loc: l, t: Term{T: v.Type()}}
	}
	if gl, ok := v.(*ssa.Global); ok {
		if el := ptrElem(gl.Type()); !isStruct(el) {
			return Arg{loc: g.locOf(f, gl), t: Term{T: v.Type()}}
		}
	}
	return Arg{t: g.val(f, v)}
}

func (g *Gen) setResults(f *Frame, v ssa.Value, sig *types.Signature, rs []Term) {
	if v == nil {
		return
	}
	switch sig.Results().Len() {
	case 0:
	case 1:
		n := g.define(f.name(v), rs[0].Sort, rs[0].S)
		f.vals[v] = Term{n, rs[0].Sort, sig.Results().At(0).Type()}
		if ci, ok := g.resolveFuncValue(rs[0]); ok {
			if g.closures == nil {
				g.closures = map[string]closureInfo{}
			}
			g.closures[n] = ci
		}
	default:
		f.tuples[v] = rs
	}
}

func (g *Gen) freshResults(f *Frame, base string, sig *types.Signature) []Term {
	var rs []Term
	for k := 0; k < sig.Results().Len(); k++ {
		t := sig.Results().At(k).Type()
		srt := g.d.sortOf(t)
		n := g.fresh(f.prefix + base + ".r")
		g.declare(n, srt)
		tm := Term{n, srt, t}
		g.typeFacts(f.en, tm, g.now(f.st), true)
		rs = append(rs, tm)
	}
	return rs
}

func (g *Gen) havocAll(f *Frame) {
	g.cur = f
	g.frameHavocAll()
	old := g.now(f.st)
	oldSt := f.st
	g.nfresh++
	f.st = &State{comp: map[string]string{}, base: fmt.Sprintf("e%d", g.nfresh)}
	g.assume(f.en, fmt.Sprintf("(<= %s %s)", old, g.now(f.st)))
	g.preservePrivate(f, oldSt, f.st, nil)
	// struct-typed locals whose address never leaves the function cannot be reached by the callee
	g.preservePrivateStructs(f, oldSt, f.st, nil)
}

func (g *Gen) mayPanic(f *Frame, what string) {
	p := g.fresh(f.prefix + "panics." + what)
	g.declare(p, "Bool")
	pv := g.fresh("pval")
	g.declare(pv, "Iface")
	f.panics = append(f.panics, Exit{en: g.defFresh("pen", "Bool", and(f.en, p)), st: f.st.clone(), pval: pv, ndefers: len(f.defers), blk: f.curBlock})
	f.en = g.defFresh(f.prefix+"en", "Bool", and(f.en, not(p)))
}

func (g *Gen) instrCall(f *Frame, v ssa.Value, cc *ssa.CallCommon, ins ssa.Instruction) {
	sig := cc.Signature()
	if cc.IsInvoke() {
		g.invoke(f, v, cc, ins)
		return
	}
	switch callee := cc.Value.(type) {
	case *ssa.Builtin:
		g.builtin(f, v, callee, cc, ins)
		return
	case *ssa.Function:
		var args []Arg
		for _, a := range cc.Args {
			args = append(args, g.argOf(f, a))
		}
		// a printf wrapper of the repository (it forwards its own format and operands to fmt): the format-string
		// obligation is the caller's
		if k, isW := printfWrapper(callee, 0); isW && k < len(cc.Args) && args[k].loc == nil {
			if !constFormat(cc.Args[k], 0) && !g.forwardsOwnFormat(f, cc.Args[k]) {
				g.safety(f, fmt.Sprintf("(not (str.contains %s \"%%\"))", args[k].t.S), "format-string", ins.Pos())
			}
		}
		rs := g.callStatic(f, callee, args, nil, ins, false)
		g.setResults(f, v, sig, rs)
		return
	case *ssa.MakeClosure:
		var args []Arg
		for _, a := range cc.Args {
			args = append(args, g.argOf(f, a))
		}
		var binds []Arg
		for _, b := range callee.Bindings {
			binds = append(binds, g.argOf(f, b))
		}
		rs := g.callStatic(f, callee.Fn.(*ssa.Function), args, binds, ins, false)
		g.setResults(f, v, sig, rs)
		return
	}
	// dynamic call through a function value
	fv := g.val(f, cc.Value)
	if ci, ok := g.resolveFuncValue(fv); ok {
		var args []Arg
		for _, a := range cc.Args {
			args = append(args, g.argOf(f, a))
		}
		rs := g.callStatic(f, ci.fn, args, ci.binds, ins, false)
		g.setResults(f, v, sig, rs)
		return
	}
	g.safety(f, fmt.Sprintf("(not (= %s 0))", fv.S), "nil-func-call", ins.Pos())
	if c := g.funcTypeContract(cc.Value.Type()); c != nil {
		var args []Arg
		for _, a := range cc.Args {
			args = append(args, g.argOf(f, a))
		}
		names := append([]string{"fn"}, c.Params...)
		rs := g.applyContract(f, c, names, append([]Arg{{t: fv}}, args...), sig, ins, "dyn")
		g.setResults(f, v, sig, rs)
		return
	}
	g.trusted["dynamic call havocs everything: "+funcKey(f.fn)] = true
	preSt := f.st
	g.havocAll(f)
	// specification counters (ghost("name")) are changed by contracts only: an unknown function value is assumed not
	// to take part in a ghost protocol
	if gn := g.ghostNames(); len(gn) > 0 {
		g.trusted["dynamic call through an unnamed function value leaves the ghost counters of the contracts unchanged"] = true
		for _, comp := range gn {
			g.compDecl(comp, "Int")
			g.set(f.st, comp, g.get(preSt, comp))
		}
	}
	if len(cc.Args) == 1 {
		// ghost record of the application (see the contract builtin called(fn, x)): set after the havoc, so that it
		// holds whatever the unknown function did
		if a := g.val(f, cc.Args[0]); a.Sort == "Iface" || a.Sort == "Int" {
			comp := "GHC$" + a.Sort
			g.compDecl(comp, "(Array Int (Array "+a.Sort+" Bool))")
			cur := g.get(f.st, comp)
			g.set(f.st, comp, fmt.Sprintf("(store %[1]s %[2]s (store (select %[1]s %[2]s) %[3]s true))", cur, fv.S, a.S))
		}
	}
	g.mayPanic(f, "dyncall")
	g.setResults(f, v, sig, g.freshResults(f, "dyn", sig))
}

func (g *Gen) funcTypeContract(t types.Type) *Contract {
	if n, ok := types.Unalias(t).(*types.Named); ok && n.Obj().Pkg() != nil {
		key := relPkg(n.Obj().Pkg().Path()) + ".type:" + n.Obj().Name()
		return g.contracts[key]
	}
	return nil
}

func (g *Gen) ifaceContract(cc *ssa.CallCommon) *Contract {
	rt := cc.Value.Type()
	if n, ok := types.Unalias(rt).(*types.Named); ok && n.Obj().Pkg() != nil {
		key := relPkg(n.Obj().Pkg().Path()) + ".(" + n.Obj().Name() + ")." + cc.Method.Name()
		if c := g.contracts[key]; c != nil {
			return c
		}
		// method may come from an embedded interface
		if it, ok := n.Underlying().(*types.Interface); ok {
			for i := 0; i < it.NumEmbeddeds(); i++ {
				if en, ok := types.Unalias(it.EmbeddedType(i)).(*types.Named); ok && en.Obj().Pkg() != nil {
					key := relPkg(en.Obj().Pkg().Path()) + ".(" + en.Obj().Name() + ")." + cc.Method.Name()
					if c := g.contracts[key]; c != nil {
						return c
					}
				}
			}
		}
	}
	return nil
}

func (g *Gen) invoke(f *Frame, v ssa.Value, cc *ssa.CallCommon, ins ssa.Instruction) {
	recv := g.val(f, cc.Value)
	sig := cc.Signature()
	g.safety(f, fmt.Sprintf("(not (= (i_tag %s) 0))", recv.S), "nil-iface-call", ins.Pos())
	var args []Arg
	for _, a := range cc.Args {
		args = append(args, g.argOf(f, a))
	}
	if c := g.ifaceContract(cc); c != nil {
		names := []string{"self"}
		msig := cc.Method.Type().(*types.Signature)
		for k := 0; k < msig.Params().Len(); k++ {
			n := msig.Params().At(k).Name()
			if k < len(c.Params) {
				n = c.Params[k]
			}
			names = append(names, n)
		}
		rs := g.applyContract(f, c, names, append([]Arg{{t: recv}}, args...), sig, ins, cc.Method.Name())
		g.setResults(f, v, sig, rs)
		return
	}
	// error.Error() and fmt.Stringer on anything: pure, opaque
	if cc.Method.Name() == "Error" || cc.Method.Name() == "String" {
		g.trusted["interface method "+cc.Method.Name()+"() treated as pure and non-panicking"] = true
		un := "imeth$" + cc.Method.Name()
		g.d.add("fn:"+un, fmt.Sprintf("(declare-fun %s (Iface) String)", un))
		g.setResults(f, v, sig, []Term{{fmt.Sprintf("(%s %s)", un, recv.S), "String", types.Typ[types.String]}})
		return
	}
	mname := cc.Method.Name()
	if cc.Method.Pkg() != nil && !strings.HasPrefix(cc.Method.Pkg().Path(), modPath) {
		g.trusted["external interface method "+cc.Method.FullName()+": result unconstrained, no repository object modified, no panic"] = true
		g.setResults(f, v, sig, g.freshResults(f, mname, sig))
		return
	}
	g.trusted["uncontracted interface method "+cc.Method.FullName()+" havocs the heap"] = true
	g.havocAll(f)
	g.mayPanic(f, mname)
	g.setResults(f, v, sig, g.freshResults(f, mname, sig))
}

func (g *Gen) callStatic(f *Frame, callee *ssa.Function, args []Arg, binds []Arg, ins ssa.Instruction, forceInline bool) []Term {
	key := funcKey(callee)
	sig := callee.Signature
	if !inModule(callee) || callee.Blocks == nil {
		return g.external(f, callee, args, ins)
	}
	c := g.contracts[key]
	if c != nil && !c.Inline && !forceInline {
		var names []string
		for _, p := range callee.Params {
			names = append(names, p.Name())
		}
		all := args
		if len(binds) > 0 {
			for _, fv := range callee.FreeVars {
				names = append(names, fv.Name())
			}
			all = append(append([]Arg{}, args...), binds...)
		}
		return g.applyContract(f, c, names, all, sig, ins, callee.Name())
	}
	// inline
	rec := false
	for _, s := range g.stack {
		if s == callee {
			rec = true
		}
	}
	if !rec && len(g.stack) < g.maxInline && g.inlineOK(callee) {
		if rs, ok := g.tryInline(f, callee, args, binds, ins); ok {
			return rs
		}
	}
	g.havocked[key] = true
	g.havocAll(f)
	g.mayPanic(f, callee.Name())
	return g.freshResults(f, callee.Name(), sig)
}

func (g *Gen) inlineOK(fn *ssa.Function) bool {
	n := 0
	for _, b := range fn.Blocks {
		n += len(b.Instrs)
	}
	return n <= 400
}

func (g *Gen) inline(f *Frame, callee *ssa.Function, args []Arg, binds []Arg, ins ssa.Instruction) []Term {
	g.inlined[funcKey(callee)] = true
	cf := g.newFrame(callee, f)
	cf.c = g.contracts[funcKey(callee)] // loop invariants of the callee apply when inlined
	for k, p := range callee.Params {
		if args[k].loc != nil {
			cf.locs[p] = args[k].loc
		} else {
			cf.vals[p] = Term{args[k].t.S, args[k].t.Sort, p.Type()}
		}
	}
	for k, fv := range callee.FreeVars {
		if binds[k].loc != nil {
			cf.locs[fv] = binds[k].loc
		} else {
			cf.vals[fv] = Term{binds[k].t.S, binds[k].t.Sort, fv.Type()}
		}
	}
	g.stack = append(g.stack, callee)
	g.encodeFrame(cf, f.en, f.st)
	g.stack = g.stack[:len(g.stack)-1]
	// propagate panics
	for _, p := range cf.panics {
		p.ndefers = len(f.defers)
		p.blk = f.curBlock
		f.panics = append(f.panics, p)
	}
	if len(cf.exits) == 0 {
		f.en = "false"
		f.en = g.defFresh(f.prefix+"en", "Bool", "false")
		return g.freshResults(f, callee.Name(), callee.Signature)
	}
	var ens []string
	var sts []*State
	for _, e := range cf.exits {
		ens = append(ens, e.en)
		sts = append(sts, e.st)
	}
	f.en = g.defFresh(f.prefix+"en", "Bool", or(ens...))
	f.st = g.mergeStates(ens, sts)
	var rs []Term
	for k := 0; k < callee.Signature.Results().Len(); k++ {
		rt := callee.Signature.Results().At(k).Type()
		t := cf.exits[len(cf.exits)-1].results[k].S
		for i := len(cf.exits) - 2; i >= 0; i-- {
			t = fmt.Sprintf("(ite %s %s %s)", cf.exits[i].en, cf.exits[i].results[k].S, t)
		}
		srt := g.d.sortOf(rt)
		rs = append(rs, Term{g.defFresh(cf.prefix+"ret", srt, t), srt, rt})
		if len(cf.exits) == 1 {
			// a function value returned by the callee keeps its identity
			if ci, ok := g.resolveFuncValue(cf.exits[0].results[k]); ok {
				if g.closures == nil {
					g.closures = map[string]closureInfo{}
				}
				g.closures[rs[k].S] = ci
			}
		}
	}
	return rs
}

// encodeFrame encodes a function body including its deferred calls and recovery.
func (g *Gen) encodeFrame(f *Frame, en string, st *State) {
	g.encodeBody(f, en, st)
	if len(f.defers) == 0 {
		return
	}
	// panic exits run the deferred calls registered before the panic
	panics := f.panics
	f.panics = nil
	var recovered []Exit
	for _, p := range panics {
		alive := []Exit{p}
		var rec []Exit
		for k := p.ndefers - 1; k >= 0; k-- {
			d := f.defers[k]
			if p.blk != nil && d.Block() != p.blk && !d.Block().Dominates(p.blk) {
				// this defer statement was not executed on the way to the panic
				if reaches(d.Block(), p.blk) {
					unsupp("defer registered on some but not all paths to a panic")
				}
				continue
			}
			var nalive, nrec []Exit
			for _, a := range alive {
				f.en, f.st = a.en, a.st.clone()
				ctx := &panicCtx{val: a.pval}
				g.pctx = append(g.pctx, ctx)
				saved := f.panics
				f.panics = nil
				g.runDeferred(f, d)
				newp := f.panics
				f.panics = saved
				g.pctx = g.pctx[:len(g.pctx)-1]
				if ctx.recovered {
					nrec = append(nrec, Exit{en: f.en, st: f.st})
				} else {
					nalive = append(nalive, Exit{en: f.en, st: f.st, pval: a.pval})
				}
				nalive = append(nalive, newp...)
			}
			for _, r := range rec {
				f.en, f.st = r.en, r.st.clone()
				saved := f.panics
				f.panics = nil
				g.pctx = append(g.pctx, nil)
				g.runDeferred(f, d)
				g.pctx = g.pctx[:len(g.pctx)-1]
				newp := f.panics
				f.panics = saved
				nrec = append(nrec, Exit{en: f.en, st: f.st})
				nalive = append(nalive, newp...)
			}
			alive, rec = nalive, nrec
		}
		for _, a := range alive {
			a.ndefers = 0
			f.panics = append(f.panics, a)
		}
		recovered = append(recovered, rec...)
	}
	// recovered executions continue in the Recover block (or return zero values)
	f.inRecovered = true
	defer func() { f.inRecovered = false }()
	for _, r := range recovered {
		f.en, f.st = r.en, r.st
		if f.fn.Recover != nil {
			for _, ins := range f.fn.Recover.Instrs {
				g.instr(f, &cfgInfo{back: map[[2]int]bool{}}, f.fn.Recover, ins)
			}
		} else {
			var rs []Term
			res := f.fn.Signature.Results()
			for k := 0; k < res.Len(); k++ {
				rs = append(rs, Term{g.d.zero(res.At(k).Type()), g.d.sortOf(res.At(k).Type()), res.At(k).Type()})
			}
			f.exits = append(f.exits, Exit{en: f.en, st: f.st.clone(), results: rs, recovered: true})
		}
	}
}

func (g *Gen) runDeferred(f *Frame, d *ssa.Defer) {
	cc := d.Common()
	if cc.IsInvoke() {
		g.invoke(f, nil, cc, d)
		return
	}
	var args []Arg
	for _, a := range cc.Args {
		args = append(args, g.argOf(f, a))
	}
	switch callee := cc.Value.(type) {
	case *ssa.Function:
		g.callStatic(f, callee, args, nil, d, true)
	case *ssa.MakeClosure:
		var binds []Arg
		for _, b := range callee.Bindings {
			binds = append(binds, g.argOf(f, b))
		}
		g.callStatic(f, callee.Fn.(*ssa.Function), args, binds, d, true)
	case *ssa.Builtin:
		g.builtin(f, nil, callee, cc, d)
	default:
		unsupp("deferred dynamic call")
	}
}

func (g *Gen) instrDefer(f *Frame, i *ssa.Defer) {}

// reaches: there is a path from block a to block b
func reaches(a, b *ssa.BasicBlock) bool {
	seen := map[int]bool{}
	var dfs func(x *ssa.BasicBlock) bool
	dfs = func(x *ssa.BasicBlock) bool {
		if x == b {
			return true
		}
		if seen[x.Index] {
			return false
		}
		seen[x.Index] = true
		for _, s := range x.Succs {
			if dfs(s) {
				return true
			}
		}
		return false
	}
	return dfs(a)
}

func (g *Gen) instrRunDefers(f *Frame, i *ssa.RunDefers) {
	for k := len(f.defers) - 1; k >= 0; k-- {
		d := f.defers[k]
		if d.Block() != i.Block() && !d.Block().Dominates(i.Block()) {
			if reaches(d.Block(), i.Block()) {
				unsupp("defer registered on some but not all paths to a return")
			}
			continue
		}
		g.pctx = append(g.pctx, nil)
		g.runDeferred(f, f.defers[k])
		g.pctx = g.pctx[:len(g.pctx)-1]
	}
}

// ---- contracts at call sites ----

func (g *Gen) applyContract(f *Frame, c *Contract, names []string, args []Arg, sig *types.Signature, ins ssa.Instruction, label string) []Term {
	env := &Env{g: g, vars: map[string]Arg{}, st: f.st, pkg: g.pkgOfContract(c)}
	for k, n := range names {
		if k < len(args) {
			env.vars[n] = args[k]
		}
	}
	for _, r := range c.Requires {
		t := g.clauseEnv(env, r)
		g.oblige(fmt.Sprintf("pre@%s#%d@%s", label, r.Idx, sanitize(f.prefix+insName(ins))), "pre", f.en, t, r.Text, ins.Pos())
	}
	old := f.st.clone()
	// recursive call: the function's callsite clauses must hold here, in the caller's own terms
	if g.top != nil && g.topC != nil && len(g.topC.Callsite) > 0 && f.parent == nil {
		for _, cs := range g.topC.Callsite {
			if cs.Target == "" && g.topC != c {
				continue
			}
			if cs.Target != "" && !strings.HasSuffix(c.Key, "."+cs.Target) {
				continue
			}
			g.callArgs = args
			g.oblige(fmt.Sprintf("rec#%d@%s", cs.Idx, sanitize(insName(ins))), "pre", f.en, g.clause(f, cs, f.st, nil), "at the recursive call: "+cs.Text, ins.Pos())
			g.callArgs = nil
		}
	}
	if c.ModAll {
		g.calleeKeeps = map[string]bool{}
		for _, k := range g.keptComps(env, c) {
			g.calleeKeeps[k] = true
		}
		g.havocAll(f)
		g.calleeKeeps = nil
		g.keepComps(f, env, c, old)
	} else {
		nowOld := g.now(f.st)
		// all targets are evaluated in the pre-call state, then havocked
		pre := env.withState(old)
		var targets []modLoc
		for _, m := range c.Modifies {
			targets = append(targets, g.modLocs(pre, m)...)
		}
		// allocation may have advanced
		nn := g.fresh("now")
		g.declare(nn, "Int")
		f.st.comp[nowComp] = nn
		g.assume(f.en, fmt.Sprintf("(<= %s %s)", nowOld, nn))
		g.havocTargets(f, pre, targets)
	}
	// preserved expressions keep their value on every exit, normal or by panic
	for _, pc := range c.Preserves {
		g.assume(f.en, g.preservedFormula(env, pc, old, f.st))
	}
	if !c.NoPanic {
		g.mayPanic(f, label)
	}
	rs := g.freshResults(f, label, sig)
	env2 := &Env{g: g, vars: env.vars, st: f.st, old: old, results: rs, pkg: env.pkg}
	for _, e := range c.Ensures {
		g.assume(f.en, g.clauseEnv(env2, e))
	}
	if c.Assumed {
		g.trusted["assumed contract: "+c.Key] = true
	}
	return rs
}

func insName(ins ssa.Instruction) string {
	if v, ok := ins.(ssa.Value); ok {
		return v.Name()
	}
	return fmt.Sprintf("b%d", ins.Block().Index)
}

// havocTarget havocs the location(s) named by a modifies clause.
func (g *Gen) havocTargets(f *Frame, env *Env, targets []modLoc) {
	g.cur = f
	for _, l := range targets {
		if l.whole != "" { // whole component (e.g. elems(x))
			if l.exceptRef != "" {
				g.frameWrite(l.whole, l.exceptRef)
			} else {
				g.frameWrite(l.whole, "(- 0 999999999)")
			}
			n := g.fresh(l.whole + ".hv")
			g.declare(n, g.compSort[l.whole])
			oldc := g.get(f.st, l.whole)
			f.st.comp[l.whole] = n
			g.verBound[n] = g.now(f.st)
			if l.exceptRef != "" {
				// only the backing array exceptRef (and fresh arrays) may differ
				g.emit("(assert (=> %s (forall ((r Int)) (! (=> (and (not (= r %s)) (<= r %s)) (= (select %s r) (select %s r))) :pattern ((select %s r)) :pattern ((select %s r))))))",
					f.en, l.exceptRef, g.now(env.st), n, oldc, n, oldc)
			}
			continue
		}
		srt := g.d.sortOf(l.loc.typ)
		n := g.fresh("hv")
		g.declare(n, srt)
		g.write(f.st, l.loc, n)
		g.typeFacts(f.en, Term{n, srt, l.loc.typ}, g.now(f.st), true)
	}
}

func (g *Gen) pkgOfContract(c *Contract) *types.Package {
	if strings.HasPrefix(c.Key, "ext.") {
		return nil
	}
	rel := c.Key[:strings.Index(c.Key, ".")]
	if strings.HasPrefix(c.Key, "..") {
		rel = "."
	}
	// keys look like "xpath.(*T).m" or "xpath/xutils.f": the package is everything before the first ".(" or the last "." of the path part
	k := c.Key
	if i := strings.Index(k, ".("); i >= 0 {
		rel = k[:i]
	} else if i := strings.Index(k, ".type:"); i >= 0 {
		rel = k[:i]
	} else {
		rest := k
		if j := strings.Index(rest, "$"); j >= 0 {
			rest = rest[:j]
		}
		rel = rest[:strings.LastIndex(rest, ".")]
	}
	path := modPath + "/" + rel
	if rel == "." || rel == "" {
		path = modPath
	}
	if p := g.w.PkgByP[path]; p != nil {
		return p.Types
	}
	return nil
}

// preservedFormula: the clause's expression has the same value in both states; elems(x) means every element of slice x.
func (g *Gen) preservedFormula(env *Env, pc *Clause, old, nw *State) string {
	if c, ok := pc.Expr.(*ast.CallExpr); ok {
		if id, ok := c.Fun.(*ast.Ident); ok && id.Name == "elems" {
			x := env.withState(old).tr(c.Args[0])
			sl, ok := types.Unalias(x.T).Underlying().(*types.Slice)
			if !ok {
				cerr("preserves elems() of non-slice")
			}
			comp, _ := g.elemComp(sl.Elem())
			g.nfresh++
			q := fmt.Sprintf("pk%d", g.nfresh)
			return fmt.Sprintf("(forall ((%[1]s Int)) (=> (and (<= 0 %[1]s) (< %[1]s (s_len %[2]s))) (= (select (select %[3]s (s_ref %[2]s)) (eidx (s_off %[2]s) %[1]s)) (select (select %[4]s (s_ref %[2]s)) (eidx (s_off %[2]s) %[1]s)))))",
				q, x.S, g.get(nw, comp), g.get(old, comp))
		}
	}
	before := env.withState(old).tr(pc.Expr)
	after := env.withState(nw).tr(pc.Expr)
	return fmt.Sprintf("(= %s %s)", after.S, before.S)
}

// tryInline inlines the callee; if its body uses a construct outside the supported subset the partial encoding
// is discarded and the caller falls back to treating the call as having unknown effects.
func (g *Gen) tryInline(f *Frame, callee *ssa.Function, args []Arg, binds []Arg, ins ssa.Instruction) (rs []Term, ok bool) {
	bodyLen := g.body.Len()
	nObl := len(g.obls)
	declared := make(map[string]bool, len(g.declared))
	for k, v := range g.declared {
		declared[k] = v
	}
	en, st := f.en, f.st.clone()
	nPanics, nStack := len(f.panics), len(g.stack)
	sN, aN, fN := g.safetyN, g.arithN, g.frameN
	defer func() {
		if r := recover(); r != nil {
			u, isU := r.(unsupported)
			if !isU {
				panic(r)
			}
			txt := g.body.String()[:bodyLen]
			g.body.Reset()
			g.body.WriteString(txt)
			g.obls = g.obls[:nObl]
			g.declared = declared
			f.en, f.st = en, st
			f.panics = f.panics[:nPanics]
			g.stack = g.stack[:nStack]
			g.safetyN, g.arithN, g.frameN = sN, aN, fN
			g.trusted["callee "+funcKey(callee)+" is outside the supported subset ("+u.msg+"): treated as a call with unknown effects"] = true
			rs, ok = nil, false
		}
	}()
	return g.inline(f, callee, args, binds, ins), true
}

// keepComps: components of the kept types are not touched by a "modifies *" callee.
func (g *Gen) keepComps(f *Frame, env *Env, c *Contract, old *State) {
	for _, k := range g.keptComps(env, c) {
		f.st.comp[k] = g.get(old, k)
	}
}

func (g *Gen) keptComps(env *Env, c *Contract) []string {
	var out []string
	for _, ts := range c.Keeps {
		e, err := parseContractExpr(ts)
		if err != nil {
			cerr("keeps %q: %v", ts, err)
		}
		var t types.Type
		if se, ok := e.(*ast.SelectorExpr); ok {
			// keeps Struct.field (or pkg.Struct.field): the field component of that struct type
			if st := env.tryResolveType(se.X); st != nil && isStruct(st) {
				u := types.Unalias(st).Underlying().(*types.Struct)
				for k := 0; k < u.NumFields(); k++ {
					if u.Field(k).Name() == se.Sel.Name {
						cmp, _, _ := g.fieldComp(st, k)
						out = append(out, cmp)
					}
				}
				continue
			}
		}
		if mt, ok := e.(*ast.MapType); ok {
			t = types.NewMap(env.resolveType(mt.Key), env.resolveType(mt.Value))
		} else {
			t = env.resolveType(e)
		}
		switch u := types.Unalias(t).Underlying().(type) {
		case *types.Map:
			a, b, cc, _, _ := g.mapComps(u)
			out = append(out, a, b, cc)
		case *types.Slice:
			cmp, _ := g.elemComp(u.Elem())
			out = append(out, cmp)
		default:
			cerr("keeps: %s is not a map or slice type", ts)
		}
	}
	return out
}

var ghostNameRe = regexp.MustCompile(`ghost\("([^"]+)"\)`)
var ghostNamesCache []string
var ghostNamesDone bool

// ghostNames: the components of all ghost counters mentioned in any contract (sorted).
func (g *Gen) ghostNames() []string {
	if ghostNamesDone {
		return ghostNamesCache
	}
	seen := map[string]bool{}
	scan := func(cs []*Clause) {
		for _, c := range cs {
			for _, m := range ghostNameRe.FindAllStringSubmatch(c.Text, -1) {
				seen["GH$"+sanitize(m[1])] = true
			}
		}
	}
	for _, c := range g.contracts {
		scan(c.Requires)
		scan(c.Ensures)
		scan(c.Modifies)
		scan(c.Recovers)
		for _, l := range c.Loops {
			scan(l.Invariants)
		}
	}
	for k := range seen {
		ghostNamesCache = append(ghostNamesCache, k)
	}
	sort.Strings(ghostNamesCache)
	ghostNamesDone = true
	return ghostNamesCache
}

var fmtFuncs = map[string]int{"fmt.Errorf": 0, "fmt.Sprintf": 0, "fmt.Printf": 0, "fmt.Fprintf": 1, "fmt.Sscanf": 1, "log.Printf": 0, "log.Fatalf": 0}
var printfWrapperCache = map[*ssa.Function]int{}

// printfWrapper: fn has a string parameter and a variadic ...interface{} parameter that it passes, unchanged and
// together, as format and operands to a fmt function (or to another such wrapper). Returns the index of the format
// parameter among the call arguments.
func printfWrapper(fn *ssa.Function, depth int) (int, bool) {
	if k, ok := printfWrapperCache[fn]; ok {
		return k, k >= 0
	}
	res := -1
	defer func() { printfWrapperCache[fn] = res }()
	if fn.Blocks == nil || depth > 3 || !fn.Signature.Variadic() {
		return -1, false
	}
	nparams := len(fn.Params)
	vparam := fn.Params[nparams-1]
	for _, b := range fn.Blocks {
		for _, ins := range b.Instrs {
			ci, ok := ins.(ssa.CallInstruction)
			if !ok {
				continue
			}
			callee := ci.Common().StaticCallee()
			if callee == nil || len(ci.Common().Args) == 0 {
				continue
			}
			k, isFmt := fmtFuncs[extName(callee)]
			if !isFmt {
				var w bool
				if k, w = printfWrapper(callee, depth+1); !w {
					continue
				}
			}
			as := ci.Common().Args
			if k >= len(as) || as[len(as)-1] != ssa.Value(vparam) {
				continue
			}
			if fp, ok := as[k].(*ssa.Parameter); ok {
				for i, p := range fn.Params {
					if p == fp {
						res = i
						return res, true
					}
				}
			}
		}
	}
	return -1, false
}

// forwardsOwnFormat: v is the format parameter of the function being encoded, itself a printf wrapper.
func (g *Gen) forwardsOwnFormat(f *Frame, v ssa.Value) bool {
	p, ok := v.(*ssa.Parameter)
	if !ok {
		return false
	}
	k, isW := printfWrapper(f.fn, 0)
	return isW && k < len(f.fn.Params) && f.fn.Params[k] == p
}
