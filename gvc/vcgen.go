package main

import (
	"os"
	"go/ast"
	"fmt"
	"go/constant"
	"go/token"
	"go/types"
	"math"
	"math/big"
	"sort"
	"strings"

	"golang.org/x/tools/go/ssa"
)

type Exit struct {
	en      string
	st      *State
	results []Term
	pval    string
	ndefers int
	blk     *ssa.BasicBlock // block in which the exit happened (for deciding which defers were registered)
	recovered bool          // a normal return reached by recovering from a panic
}

// Frame is one activation being encoded (the top function or an inlined callee).
type Frame struct {
	fn      *ssa.Function
	prefix  string
	vals    map[ssa.Value]Term
	locs    map[ssa.Value]*Loc
	tuples  map[ssa.Value][]Term
	deadBlk map[int]bool
	blockEn map[int]string
	blockSt map[int]*State // state at end of block
	endEn   map[int]string // en at end of block
	edge    map[[2]int]string
	en      string // current enabling condition
	st      *State // current state
	exits   []Exit
	panics  []Exit
	depth   int
	c       *Contract
	entry   *State
	parent  *Frame
	env0    *Env // entry environment (for old())
	loopHdr map[int]int
	defers  []*ssa.Defer
	recvd   bool
	private    []privCell
	inRecovered bool
	privStructs []privStruct // struct-typed locals that never escape: other objects' havoc leaves them alone
	privSl     map[ssa.Value]bool
	loopIdx    *ssa.Phi
	loopPhis   []*ssa.Phi
	loopNames  map[string]*ssa.Phi
	loopOuter  map[string]*ssa.Phi // loop-carried names of the enclosing loops only (for outer(x))
	loopVals   map[string]ssa.Value // source names used inside the loop that denote one value defined outside it
	loopRange  *ssa.Range
	curBlock   *ssa.BasicBlock
	loopHead   map[int]*loopCtx
	paramEntry map[string]Term
	named      map[string]Term
}

func (g *Gen) newFrame(fn *ssa.Function, parent *Frame) *Frame {
	f := &Frame{fn: fn, vals: map[ssa.Value]Term{}, locs: map[ssa.Value]*Loc{}, tuples: map[ssa.Value][]Term{},
		blockEn: map[int]string{}, blockSt: map[int]*State{}, endEn: map[int]string{}, edge: map[[2]int]string{}, parent: parent}
	if parent != nil {
		f.depth = parent.depth + 1
		g.nfresh++
		f.prefix = fmt.Sprintf("i%d.", g.nfresh)
	}
	return f
}

func (f *Frame) name(v ssa.Value) string { return f.prefix + sanitize(v.Name()) }

// ---- constants ----

func fpLit64(x float64) string {
	return fmt.Sprintf("((_ to_fp 11 53) #x%016x)", math.Float64bits(x))
}
func fpLit32(x float32) string {
	return fmt.Sprintf("((_ to_fp 8 24) #x%08x)", math.Float32bits(x))
}

func smtInt(v *big.Int) string {
	if v.Sign() < 0 {
		return "(- " + new(big.Int).Neg(v).String() + ")"
	}
	return v.String()
}

func smtString(s string) string {
	var b strings.Builder
	b.WriteByte('"')
	for i := 0; i < len(s); i++ {
		c := s[i]
		switch {
		case c == '"':
			b.WriteString("\"\"")
		case c >= 0x20 && c < 0x7f && c != '\\':
			b.WriteByte(c)
		default:
			fmt.Fprintf(&b, "\\u{%x}", c)
		}
	}
	b.WriteByte('"')
	return b.String()
}

func (g *Gen) constTerm(c *ssa.Const) Term {
	t := c.Type()
	srt := g.d.sortOf(t)
	if c.Value == nil {
		return Term{S: g.d.zero(t), Sort: srt, T: t}
	}
	switch srt {
	case "Bool":
		if constant.BoolVal(c.Value) {
			return Term{"true", srt, t}
		}
		return Term{"false", srt, t}
	case "Int":
		v := constant.ToInt(c.Value)
		bi, ok := constant.Val(v).(*big.Int)
		if !ok {
			i64, _ := constant.Int64Val(v)
			bi = big.NewInt(i64)
			if u, isU := constant.Uint64Val(v); isU && i64 < 0 {
				bi = new(big.Int).SetUint64(u)
			}
		}
		return Term{smtInt(bi), srt, t}
	case "F64":
		f, _ := constant.Float64Val(c.Value)
		return Term{fpLit64(f), srt, t}
	case "F32":
		f, _ := constant.Float32Val(c.Value)
		return Term{fpLit32(f), srt, t}
	case "String":
		return Term{smtString(constant.StringVal(c.Value)), srt, t}
	}
	unsupp("constant %v of sort %s", c, srt)
	return Term{}
}

func (g *Gen) fnConst(fn *ssa.Function) string {
	n := "fn$" + sanitize(funcKey(fn))
	if g.fnByConst == nil {
		g.fnByConst = map[string]*ssa.Function{}
	}
	g.fnByConst[n] = fn
	if !g.d.has("fn:" + n) {
		g.d.add("fn:"+n, fmt.Sprintf("(define-fun %s () Int %s)", n, g.d.tagOfRaw(n)))
	}
	return n
}

func (d *Decls) tagOfRaw(n string) string {
	d.ntag++
	return fmt.Sprintf("(- %d)", 1000+d.ntag)
}

func (g *Gen) globalRef(gl *ssa.Global) string {
	n := "gref$" + sanitize(relPkg(gl.Pkg.Pkg.Path())+"."+gl.Name())
	if !g.d.has("g:" + n) {
		g.d.add("g:"+n, fmt.Sprintf("(define-fun %s () Int %s)", n, g.d.tagOfRaw(n)))
	}
	return n
}

// val returns the SMT term of an SSA value in frame f.
func (g *Gen) val(f *Frame, v ssa.Value) Term {
	switch v := v.(type) {
	case *ssa.Const:
		return g.constTerm(v)
	case *ssa.Function:
		return Term{g.fnConst(v), "Int", v.Type()}
	case *ssa.Global:
		el := ptrElem(v.Type())
		if isStruct(el) {
			return Term{g.globalRef(v), "Int", v.Type()}
		}
		unsupp("global address %s used as value", v.Name())
	case *ssa.Builtin:
		unsupp("builtin as value")
	}
	if t, ok := f.vals[v]; ok {
		return t
	}
	if _, ok := f.locs[v]; ok {
		unsupp("pointer %s (a location) used as value in %s", v.Name(), f.fn.Name())
	}
	unsupp("value %s (%T) not available in %s", v.Name(), v, f.fn.Name())
	return Term{}
}

// locOf returns the location designated by pointer value v.
func (g *Gen) locOf(f *Frame, v ssa.Value) *Loc {
	if l, ok := f.locs[v]; ok {
		return l
	}
	el := ptrElem(v.Type())
	if el == nil {
		unsupp("locOf non-pointer %s", v.Name())
	}
	if gl, ok := v.(*ssa.Global); ok && !isStruct(el) {
		comp := "G$" + sanitize(relPkg(gl.Pkg.Pkg.Path())+"."+gl.Name())
		es := g.d.sortOf(el)
		g.compDecl(comp, "(Array Int "+es+")")
		return &Loc{kind: "cell", ref: "0", comp: comp, rsort: es, rtype: el, typ: el}
	}
	t := g.val(f, v)
	if isStruct(el) {
		unsupp("whole-struct location through ref")
	}
	return g.cellLoc(t.S, el)
}

func (g *Gen) setVal(f *Frame, v ssa.Value, term string) {
	t := v.Type()
	srt := g.d.sortOf(t)
	n := g.define(f.name(v)+g.uniq(f, v), srt, term)
	f.vals[v] = Term{n, srt, t}
	bound := g.now(f.st)
	if g.nextBound != "" {
		bound = g.nextBound
		g.nextBound = ""
	}
	_, isConst := v.(*ssa.Const)
	_, isBin := v.(*ssa.BinOp)
	g.typeFacts(f.en, Term{n, srt, t}, bound, !isConst && !isBin)
}

func (g *Gen) uniq(f *Frame, v ssa.Value) string { return "" }

// typeFacts assumes representation invariants of a value of Go type t.
func (g *Gen) typeFacts(en string, t Term, bound string, ranges bool) {
	if t.T == nil {
		return
	}
	switch u := types.Unalias(t.T).Underlying().(type) {
	case *types.Basic:
		if lo, hi, ok := intRange(u); ok && ranges {
			g.assume(en, fmt.Sprintf("(and (<= %s %s) (<= %s %s))", lo, t.S, t.S, hi))
		}
		if u.Info()&types.IsString != 0 && ranges {
			g.assume(en, fmt.Sprintf("(<= (str.len %s) 9223372036854775807)", t.S))
		}
	case *types.Slice:
		g.assume(en, fmt.Sprintf("(and (<= 0 (s_off %[1]s)) (<= 0 (s_len %[1]s)) (<= (s_len %[1]s) (s_cap %[1]s)) (<= (+ (s_off %[1]s) (s_cap %[1]s)) 9223372036854775807) (<= 0 (s_ref %[1]s)) (<= (s_ref %[1]s) %[2]s) (=> (= (s_ref %[1]s) 0) (= (s_cap %[1]s) 0)))", t.S, bound))
	case *types.Pointer, *types.Map, *types.Chan:
		g.assume(en, fmt.Sprintf("(<= %s %s)", t.S, bound))
	case *types.Interface:
		// representation invariant: the nil interface has exactly one representation
		if t.Sort == "Iface" {
			g.assume(en, fmt.Sprintf("(=> (= (i_tag %[1]s) 0) (= %[1]s %[2]s))", t.S, nilIface))
		}
	}
}

// ---- CFG helpers ----

type cfgInfo struct {
	order   []*ssa.BasicBlock
	isHdr   map[int]bool
	back    map[[2]int]bool
	loopOf  map[int][]*ssa.BasicBlock // header index -> blocks of natural loop
	hdrList []int
}

func analyzeCFG(fn *ssa.Function) *cfgInfo {
	ci := &cfgInfo{isHdr: map[int]bool{}, back: map[[2]int]bool{}, loopOf: map[int][]*ssa.BasicBlock{}}
	reach := map[int]bool{}
	var post []*ssa.BasicBlock
	var dfs func(b *ssa.BasicBlock)
	dfs = func(b *ssa.BasicBlock) {
		reach[b.Index] = true
		for _, s := range b.Succs {
			if s.Dominates(b) {
				ci.back[[2]int{b.Index, s.Index}] = true
				ci.isHdr[s.Index] = true
				continue
			}
			if !reach[s.Index] {
				dfs(s)
			}
		}
		post = append(post, b)
	}
	dfs(fn.Blocks[0])
	if fn.Recover != nil && !reach[fn.Recover.Index] {
		// recover block handled separately
	}
	for i := len(post) - 1; i >= 0; i-- {
		ci.order = append(ci.order, post[i])
	}
	// check reducibility: every edge to an already-visited-later block must be a back edge (dominance)
	pos := map[int]int{}
	for i, b := range ci.order {
		pos[b.Index] = i
	}
	for _, b := range ci.order {
		for _, s := range b.Succs {
			if ci.back[[2]int{b.Index, s.Index}] {
				continue
			}
			if pos[s.Index] <= pos[b.Index] {
				unsupp("irreducible control flow in %s", fn.Name())
			}
		}
	}
	for h := range ci.isHdr {
		ci.hdrList = append(ci.hdrList, h)
	}
	sort.Ints(ci.hdrList)
	// natural loops
	for _, h := range ci.hdrList {
		in := map[int]bool{h: true}
		var work []*ssa.BasicBlock
		for _, b := range fn.Blocks {
			if ci.back[[2]int{b.Index, h}] {
				if !in[b.Index] {
					in[b.Index] = true
					work = append(work, b)
				}
			}
		}
		for len(work) > 0 {
			b := work[len(work)-1]
			work = work[:len(work)-1]
			for _, p := range b.Preds {
				if !in[p.Index] && reach[p.Index] {
					in[p.Index] = true
					work = append(work, p)
				}
			}
		}
		for _, b := range fn.Blocks {
			if in[b.Index] {
				ci.loopOf[h] = append(ci.loopOf[h], b)
			}
		}
	}
	return ci
}

// ---- body encoding ----

func (g *Gen) encodeBody(f *Frame, en string, st *State) {
	fn := f.fn
	if fn.Blocks == nil {
		unsupp("no body for %s", fn.Name())
	}
	ci := analyzeCFG(fn)
	f.loopHdr = map[int]int{}
	for k, h := range ci.hdrList {
		f.loopHdr[h] = k
	}
	f.entry = st.clone()
	for _, b := range ci.order {
		// incoming forward edges
		var ens []string
		var sts []*State
		var preds []*ssa.BasicBlock
		if b.Index == 0 {
			ens, sts = []string{en}, []*State{st}
		} else {
			for _, p := range b.Preds {
				if ci.back[[2]int{p.Index, b.Index}] {
					continue
				}
				e, ok := f.edge[[2]int{p.Index, b.Index}]
				if !ok {
					continue // unreachable predecessor
				}
				ens = append(ens, e)
				sts = append(sts, f.blockSt[p.Index])
				preds = append(preds, p)
			}
		}
		if len(ens) == 0 {
			continue
		}
		ben := g.define(g.fresh(f.prefix+"en_b"+fmt.Sprint(b.Index)), "Bool", or(ens...))
		f.en = ben
		if ci.isHdr[b.Index] {
			g.loopHeader(f, ci, b, preds, ens, sts)
		} else {
			f.st = g.mergeStates(ens, sts)
			for _, ins := range b.Instrs {
				phi, ok := ins.(*ssa.Phi)
				if !ok {
					break
				}
				g.encodePhi(f, phi, preds, ens)
			}
		}
		f.blockEn[b.Index] = f.en
		f.curBlock = b
		for _, ins := range b.Instrs {
			if _, ok := ins.(*ssa.Phi); ok {
				continue
			}
			g.instr(f, ci, b, ins)
		}
		f.blockSt[b.Index] = f.st
		f.endEn[b.Index] = f.en
		if reachCanaries && f.prefix == "" {
			g.reachCanary(f, ci, b)
		}
	}
}

// reachCanary (GVC_REACH=1): block-level vacuity canaries. The start of every block, and the end of every returning
// block, must not be provably unreachable under the assumptions made so far - a provable one is dead code or a
// contradiction between assumed contracts and the encoding. Blocks behind a call that never returns (a contract with
// "ensures false") or a panic are dead by design and skipped.
func (g *Gen) reachCanary(f *Frame, ci *cfgInfo, b *ssa.BasicBlock) {
	if f.deadBlk == nil {
		f.deadBlk = map[int]bool{}
	}
	noRet := false
	for _, ins := range b.Instrs {
		switch x := ins.(type) {
		case *ssa.Panic:
			noRet = true
		case *ssa.Call:
			if callee := x.Call.StaticCallee(); callee != nil {
				if c := g.contracts[funcKey(callee)]; c != nil && neverReturns(c) {
					noRet = true
				}
			}
		}
	}
	allDead := b.Index != 0
	for _, p := range b.Preds {
		if ci.back[[2]int{p.Index, b.Index}] {
			continue
		}
		if !f.deadBlk[p.Index] {
			allDead = false
		}
	}
	f.deadBlk[b.Index] = noRet || allDead
	pos := f.fn.Pos()
	for _, ins := range b.Instrs {
		if ins.Pos().IsValid() {
			pos = ins.Pos()
			break
		}
	}
	if !allDead {
		g.obligeX(fmt.Sprintf("reach.b%d", b.Index), "canary", "true", not(f.blockEn[b.Index]), "block "+fmt.Sprint(b.Index)+" ("+b.Comment+") can be entered (must NOT be provable)", pos, false)
	}
	if _, isRet := b.Instrs[len(b.Instrs)-1].(*ssa.Return); isRet && !f.deadBlk[b.Index] {
		g.obligeX(fmt.Sprintf("reach.ret%d", b.Index), "canary", "true", not(f.endEn[b.Index]), "the return of block "+fmt.Sprint(b.Index)+" can be reached (must NOT be provable)", pos, false)
	}
}

var reachCanaries = os.Getenv("GVC_REACH") != ""

func (g *Gen) encodePhi(f *Frame, phi *ssa.Phi, preds []*ssa.BasicBlock, ens []string) {
	// map pred block -> edge index in phi.Edges (phi.Edges is parallel to block.Preds)
	b := phi.Block()
	var vals []string
	for i, p := range preds {
		_ = i
		for j, bp := range b.Preds {
			if bp == p {
				if _, isLoc := f.locs[phi.Edges[j]]; isLoc {
					unsupp("phi of locations")
				}
				vals = append(vals, g.val(f, phi.Edges[j]).S)
				break
			}
		}
	}
	t := vals[len(vals)-1]
	for i := len(vals) - 2; i >= 0; i-- {
		t = fmt.Sprintf("(ite %s %s %s)", ens[i], vals[i], t)
	}
	g.setVal(f, phi, t)
}

// writeSet computes heap components possibly written by the blocks; all=true if unknown.
func (g *Gen) writeSet(fn *ssa.Function, blocks []*ssa.BasicBlock, seen map[*ssa.Function]bool) (comps map[string]bool, all bool) {
	comps = map[string]bool{}
	addLoc := func(addr ssa.Value) bool {
		for {
			switch a := addr.(type) {
			case *ssa.FieldAddr:
				st := ptrElem(a.X.Type())
				// if the base is itself an interior pointer, the root component is further up
				switch a.X.(type) {
				case *ssa.FieldAddr, *ssa.IndexAddr:
					addr = a.X
					continue
				}
				if _, isAlloc := a.X.(*ssa.Alloc); isAlloc {
					// local struct
				}
				comp, _, _ := g.fieldComp(st, a.Field)
				comps[comp] = true
				return true
			case *ssa.IndexAddr:
				switch xt := types.Unalias(a.X.Type()).Underlying().(type) {
				case *types.Slice:
					c, _ := g.elemComp(xt.Elem())
					comps[c] = true
					return true
				case *types.Pointer: // pointer to array
					addr = a.X
					continue
				}
				return false
			case *ssa.Alloc:
				el := ptrElem(a.Type())
				if isStruct(el) {
					return false
				}
				c, _ := g.cellComp(el)
				comps[c] = true
				return true
			case *ssa.Global:
				el := ptrElem(a.Type())
				if isStruct(el) {
					return false
				}
				comps["G$"+sanitize(relPkg(a.Pkg.Pkg.Path())+"."+a.Name())] = true
				g.compDecl("G$"+sanitize(relPkg(a.Pkg.Pkg.Path())+"."+a.Name()), "(Array Int "+g.d.sortOf(el)+")")
				return true
			case *ssa.Parameter, *ssa.FreeVar, *ssa.Phi, *ssa.UnOp, *ssa.Call, *ssa.Extract:
				el := ptrElem(a.Type())
				if el == nil || isStruct(el) {
					return false
				}
				c, _ := g.cellComp(el)
				comps[c] = true
				return true
			default:
				return false
			}
		}
	}
	for _, b := range blocks {
		for _, ins := range b.Instrs {
			switch i := ins.(type) {
			case *ssa.Store:
				el := ptrElem(i.Addr.Type())
				if isStruct(el) {
					// whole struct store: all fields of the struct
					if _, ok := i.Addr.(*ssa.FieldAddr); ok {
						if !addLoc(i.Addr) {
							return nil, true
						}
						continue
					}
					if _, ok := i.Addr.(*ssa.IndexAddr); ok {
						if !addLoc(i.Addr) {
							return nil, true
						}
						continue
					}
					u := types.Unalias(el).Underlying().(*types.Struct)
					for k := 0; k < u.NumFields(); k++ {
						c, _, _ := g.fieldComp(el, k)
						comps[c] = true
					}
					continue
				}
				if !addLoc(i.Addr) {
					return nil, true
				}
			case *ssa.UnOp:
				if i.Op == token.ARROW {
					ct := types.Unalias(i.X.Type()).Underlying().(*types.Chan)
					c1, _ := g.recvComp(ct)
					comps[c1] = true
					if i.CommaOk {
						g.compDecl("CHD", "(Array Int Bool)")
						comps["CHD"] = true
					}
				}
			case *ssa.Send:
				ct := types.Unalias(i.Chan.Type()).Underlying().(*types.Chan)
				c1, c2 := g.chanComps(ct)
				comps[c1], comps[c2] = true, true
			case *ssa.MapUpdate:
				m := types.Unalias(i.Map.Type()).Underlying().(*types.Map)
				v, h, l, _, _ := g.mapComps(m)
				comps[v], comps[h], comps[l] = true, true, true
			case *ssa.Alloc, *ssa.MakeSlice, *ssa.MakeMap, *ssa.MakeClosure, *ssa.MakeChan:
				comps[nowComp] = true
				if a, ok := i.(*ssa.Alloc); ok {
					el := ptrElem(a.Type())
					if isStruct(el) {
						u := types.Unalias(el).Underlying().(*types.Struct)
						for k := 0; k < u.NumFields(); k++ {
							c, _, _ := g.fieldComp(el, k)
							comps[c] = true
						}
					} else if a.Heap {
						c, _ := g.cellComp(el)
						comps[c] = true
					}
				}
				if ms, ok := i.(*ssa.MakeSlice); ok {
					c, _ := g.elemComp(types.Unalias(ms.Type()).Underlying().(*types.Slice).Elem())
					comps[c] = true
				}
				if mm, ok := i.(*ssa.MakeMap); ok {
					v, h, l, _, _ := g.mapComps(types.Unalias(mm.Type()).Underlying().(*types.Map))
					comps[v], comps[h], comps[l] = true, true, true
				}
			case *ssa.Slice:
				comps[nowComp] = true
			case *ssa.Range, *ssa.Next:
				comps["IT"] = true
				g.compDecl("IT", "(Array Int Int)")
				var rx ssa.Value
				if r, ok := i.(*ssa.Range); ok {
					rx = r.X
				} else if r, ok := i.(*ssa.Next).Iter.(*ssa.Range); ok {
					rx = r.X
				}
				if rx != nil {
					if mt, ok := types.Unalias(rx.Type()).Underlying().(*types.Map); ok {
						vc, _ := g.visitedComp(mt)
						comps[vc] = true
					}
				}
			case ssa.CallInstruction:
				cs, a := g.callWriteSet(i.Common(), seen)
				if a {
					return nil, true
				}
				for c := range cs {
					comps[c] = true
				}
				comps[nowComp] = true
			}
		}
	}
	g.compDecl(nowComp, "Int")
	return comps, false
}

func (g *Gen) callWriteSet(cc *ssa.CallCommon, seen map[*ssa.Function]bool) (map[string]bool, bool) {
	comps := map[string]bool{}
	if cc.IsInvoke() {
		if c := g.ifaceContract(cc); c != nil {
			if c.ModAll {
				return nil, true
			}
			if len(c.Modifies) == 0 {
				return comps, false
			}
		}
		return nil, true
	}
	switch v := cc.Value.(type) {
	case *ssa.Builtin:
		switch v.Name() {
		case "append":
			sl := types.Unalias(cc.Args[0].Type()).Underlying().(*types.Slice)
			c, _ := g.elemComp(sl.Elem())
			comps[c] = true
			comps[nowComp] = true
		case "copy":
			if sl, ok := types.Unalias(cc.Args[0].Type()).Underlying().(*types.Slice); ok {
				c, _ := g.elemComp(sl.Elem())
				comps[c] = true
			}
		case "delete":
			m := types.Unalias(cc.Args[0].Type()).Underlying().(*types.Map)
			a, b, c, _, _ := g.mapComps(m)
			comps[a], comps[b], comps[c] = true, true, true
		case "close":
			g.compDecl("CHC", "(Array Int Bool)")
			comps["CHC"] = true
		case "clear":
			return nil, true
		}
		return comps, false
	case *ssa.Function:
		return g.fnWriteSet(v, seen)
	case *ssa.MakeClosure:
		return g.fnWriteSet(v.Fn.(*ssa.Function), seen)
	}
	if c := g.funcTypeContract(cc.Value.Type()); c != nil && !c.ModAll {
		if len(c.Modifies) == 0 {
			return comps, false
		}
		if cs, ok := g.modifiesComps(nil, c); ok {
			cs[nowComp] = true
			return cs, false
		}
	}
	return nil, true
}

func (g *Gen) fnWriteSet(fn *ssa.Function, seen map[*ssa.Function]bool) (map[string]bool, bool) {
	key := funcKey(fn)
	if c := g.contracts[key]; c != nil && !c.Inline {
		if neverReturns(c) {
			// a callee that never returns normally (ensures false: it always panics) contributes nothing to what a
			// loop may have changed when control comes back to the loop head
			return map[string]bool{}, false
		}
		if c.ModAll {
			return nil, true
		}
		comps := map[string]bool{}
		if len(c.Modifies) > 0 {
			// conservative: resolve by type of the designated location
			cs, ok := g.modifiesComps(fn, c)
			if !ok {
				return nil, true
			}
			for k := range cs {
				comps[k] = true
			}
		}
		comps[nowComp] = true
		return comps, false
	}
	if fn.Blocks == nil {
		if !inModule(fn) {
			// external: assumed not to modify repository objects
			return map[string]bool{}, false
		}
		return nil, true
	}
	if !inModule(fn) {
		return map[string]bool{}, false
	}
	if seen[fn] {
		return nil, true
	}
	seen[fn] = true
	defer delete(seen, fn)
	return g.writeSet(fn, fn.Blocks, seen)
}

func inModule(fn *ssa.Function) bool {
	for fn.Parent() != nil {
		fn = fn.Parent()
	}
	return fn.Pkg != nil && strings.HasPrefix(fn.Pkg.Pkg.Path(), modPath)
}

func (g *Gen) loopHeader(f *Frame, ci *cfgInfo, b *ssa.BasicBlock, preds []*ssa.BasicBlock, ens []string, sts []*State) {
	k := f.loopHdr[b.Index]
	var spec *LoopSpec
	if f.c != nil {
		spec = f.c.Loops[k]
	}
	pre := g.mergeStates(ens, sts)
	// phi entry values
	var phis []*ssa.Phi
	for _, ins := range b.Instrs {
		if p, ok := ins.(*ssa.Phi); ok {
			phis = append(phis, p)
		} else {
			break
		}
	}
	entryVals := map[*ssa.Phi]string{}
	for _, phi := range phis {
		var vals []string
		for _, p := range preds {
			for j, bp := range b.Preds {
				if bp == p {
					vals = append(vals, g.val(f, phi.Edges[j]).S)
					break
				}
			}
		}
		t := vals[len(vals)-1]
		for i := len(vals) - 2; i >= 0; i-- {
			t = fmt.Sprintf("(ite %s %s %s)", ens[i], vals[i], t)
		}
		entryVals[phi] = t
	}
	f.loopIdx = nil
	f.loopPhis = phis
	for _, phi := range phis {
		if phi.Comment == "rangeindex" {
			f.loopIdx = phi
		}
	}
	// names: phis of the enclosing loops (outermost first), then this loop's own
	names := map[string]*ssa.Phi{}
	type encl struct {
		h    int
		size int
	}
	var es []encl
	for _, h := range ci.hdrList {
		if h == b.Index {
			continue
		}
		for _, lb := range ci.loopOf[h] {
			if lb.Index == b.Index {
				es = append(es, encl{h, len(ci.loopOf[h])})
			}
		}
	}
	sort.Slice(es, func(i, j int) bool { return es[i].size > es[j].size })
	for _, e := range es {
		for _, ins := range f.fn.Blocks[e.h].Instrs {
			if phi, ok := ins.(*ssa.Phi); ok && phi.Comment != "" && phi.Comment != "rangeindex" {
				names[phi.Comment] = phi
			}
		}
	}
	outerNames := map[string]*ssa.Phi{}
	for k, v := range names {
		outerNames[k] = v
	}
	for _, e := range es {
		for _, ins := range f.fn.Blocks[e.h].Instrs {
			if phi, ok := ins.(*ssa.Phi); ok && phi.Comment == "rangeindex" {
				outerNames["loopidx"] = phi // hidden index of the innermost enclosing `range` loop
			}
		}
	}
	for _, phi := range phis {
		if phi.Comment != "" && phi.Comment != "rangeindex" {
			names[phi.Comment] = phi
		}
	}
	f.loopNames = names
	f.loopOuter = outerNames
	f.loopVals = g.loopDebugVals(f.fn, ci.loopOf[b.Index])
	f.loopRange = nil
	for _, ins := range b.Instrs {
		if nx, ok := ins.(*ssa.Next); ok {
			if r, ok := nx.Iter.(*ssa.Range); ok {
				f.loopRange = r
			}
		}
	}
	if rng := f.loopRange; rng != nil {
		// the operand of `for ... range X` is evaluated before the loop: inside the loop clauses its source name denotes that value
		for _, ins := range rng.Block().Instrs {
			if dr, ok := ins.(*ssa.DebugRef); ok && !dr.IsAddr && dr.X == rng.X {
				if id, ok := dr.Expr.(*ast.Ident); ok {
					if _, isLoopVar := names[id.Name]; !isLoopVar {
						f.loopVals[id.Name] = rng.X
					}
				}
			}
		}
	}
	defer func() { f.loopNames = nil; f.loopRange = nil; f.loopVals = nil }()
	defer func() { f.loopIdx = nil; f.loopPhis = nil }()
	// automatic invariant of "for i := range slice" loops (SSA rangeindex pattern): -1 <= idx < n
	type autoInv struct {
		phi *ssa.Phi
		n   string
	}
	var autos []autoInv
	for _, phi := range phis {
		if phi.Comment != "rangeindex" {
			continue
		}
		for _, ins := range b.Instrs {
			if bo, ok := ins.(*ssa.BinOp); ok && bo.Op == token.LSS {
				if inc, ok := bo.X.(*ssa.BinOp); ok && inc.Op == token.ADD && inc.X == phi {
					if nv, ok := f.vals[bo.Y]; ok {
						autos = append(autos, autoInv{phi, nv.S})
					} else if c, ok := bo.Y.(*ssa.Const); ok {
						autos = append(autos, autoInv{phi, g.constTerm(c).S})
					}
				}
			}
		}
	}
	for _, a := range autos {
		g.oblige(fmt.Sprintf("inv#%d.auto.init", k), "inv.init", f.en, fmt.Sprintf("(and (<= (- 1) %[1]s) (< %[1]s %[2]s))", entryVals[a.phi], a.n), "range index within bounds", b.Instrs[0].Pos())
	}
	// init obligations: invariant with phis := entry values in pre state
	if spec != nil {
		for _, phi := range phis {
			srt := g.d.sortOf(phi.Type())
			f.vals[phi] = Term{g.defFresh(f.name(phi)+".init", srt, entryVals[phi]), srt, phi.Type()}
		}
		f.st = pre
		for _, inv := range spec.Invariants {
			t := g.clause(f, inv, f.st, nil)
			g.oblige(fmt.Sprintf("inv#%d.%d.init", k, inv.Idx), "inv.init", f.en, t, inv.Text, b.Instrs[0].Pos())
		}
	}
	// havoc
	comps, all := g.writeSet(f.fn, ci.loopOf[b.Index], map[*ssa.Function]bool{f.fn: true})
	st := pre.clone()
	touched := map[*ssa.Alloc]bool{}
	for _, lb := range ci.loopOf[b.Index] {
		for _, ins := range lb.Instrs {
			if u, ok := ins.(*ssa.Store); ok {
				if fa, ok := u.Addr.(*ssa.FieldAddr); ok {
					if a, ok := fa.X.(*ssa.Alloc); ok {
						touched[a] = true
					}
				}
				if a, ok := u.Addr.(*ssa.Alloc); ok {
					touched[a] = true
				}
			}
			if a, ok := ins.(*ssa.Alloc); ok {
				touched[a] = true // allocated inside the loop: a new object in every iteration
			}
		}
	}
	if all {
		g.nfresh++
		st = &State{comp: map[string]string{}, base: fmt.Sprintf("e%d", g.nfresh)}
		g.assume(f.en, fmt.Sprintf("(<= %s %s)", g.now(pre), g.now(st)))
		for _, lb := range ci.loopOf[b.Index] {
			for _, ins := range lb.Instrs {
				switch u := ins.(type) {
				case *ssa.Store:
					if a, ok := u.Addr.(*ssa.Alloc); ok {
						touched[a] = true
					}
				case ssa.CallInstruction:
					if mc, ok := u.Common().Value.(*ssa.MakeClosure); ok {
						for _, bnd := range mc.Bindings {
							if a, ok := bnd.(*ssa.Alloc); ok {
								touched[a] = true
							}
						}
					}
				}
			}
		}
		g.preservePrivate(f, pre, st, touched)
	} else {
		var ks []string
		for c := range comps {
			ks = append(ks, c)
		}
		sort.Strings(ks)
		for _, c := range ks {
			n := g.fresh(c + ".loop")
			g.declare(n, g.compSort[c])
			st.comp[c] = n
		}
		if comps[nowComp] {
			g.assume(f.en, fmt.Sprintf("(<= %s %s)", g.now(pre), g.now(st)))
		}
		for _, c := range ks {
			g.verBound[st.comp[c]] = g.now(st)
		}
		// The function's frame (checked at every write) also bounds what the loop can have changed: objects that
		// existed at function entry and are not named by a modifies clause still have their entry value.
		if g.frameOn && g.topEntry != nil {
			for _, c := range ks {
				if c == nowComp || c == "IT" || strings.HasPrefix(c, "ITV$") || !strings.HasPrefix(g.compSort[c], "(Array Int") {
					continue
				}
				star := false
				conds := []string{fmt.Sprintf("(<= r %s)", g.frameNow0)}
				for _, a := range g.frameAllowed[c] {
					if a == "*" {
						star = true
					}
					conds = append(conds, fmt.Sprintf("(not (= r %s))", a))
				}
				if star {
					continue
				}
				g.emit("(assert (forall ((r Int)) (! (=> %s (= (select %s r) (select %s r))) :pattern ((select %s r)))))",
					and(conds...), st.comp[c], g.get(g.topEntry, c), st.comp[c])
			}
		}
	}
	if !all {
		// struct-typed locals that are not assigned in the loop keep their value although the loop assigns to other
		// objects of the same struct type
		g.preservePrivateStructs(f, pre, st, touched)
	}
	f.st = st
	for _, phi := range phis {
		srt := g.d.sortOf(phi.Type())
		n := f.name(phi)
		g.declare(n, srt)
		f.vals[phi] = Term{n, srt, phi.Type()}
		g.typeFacts(f.en, f.vals[phi], g.now(f.st), true)
	}
	// loop-carried private slices (see privateSlices) are nil or backed by an array this activation allocated
	if f.privSl == nil {
		f.privSl = privateSlices(f.fn, g.freshCall)
	}
	for _, phi := range phis {
		if f.privSl[phi] && f.entry != nil {
			g.assume(f.en, fmt.Sprintf("(or (= (s_ref %[1]s) 0) (> (s_ref %[1]s) %[2]s))", f.vals[phi].S, g.now(f.entry)))
		}
	}
	if spec != nil {
		for _, inv := range spec.Invariants {
			g.assume(f.en, g.clause(f, inv, f.st, nil))
		}
	}
	lcAutos := map[*ssa.Phi]string{}
	for _, a := range autos {
		g.assume(f.en, fmt.Sprintf("(and (<= (- 1) %[1]s) (< %[1]s %[2]s))", f.vals[a.phi].S, a.n))
		lcAutos[a.phi] = a.n
	}
	// remember for back edges
	if f.loopHead == nil {
		f.loopHead = map[int]*loopCtx{}
	}
	lc := &loopCtx{phis: phis, spec: spec, k: k, autos: lcAutos, names: names, rng: f.loopRange, vals: f.loopVals, outer: outerNames}
	if spec != nil && spec.Decreases != nil {
		v := g.clauseTerm(f, spec.Decreases, f.st, nil)
		lc.varAtHead = g.defFresh("variant", "Int", v.S)
	}
	f.loopHead[b.Index] = lc
}

// privCell is a local variable cell that no callee can reach (captured at most by closures that are
// only called or deferred by this function): calls with unknown effects leave it unchanged.
type privCell struct {
	alloc *ssa.Alloc
	comp  string
	ref   string
}

func isPrivateAlloc(a *ssa.Alloc) bool {
	refs := a.Referrers()
	if refs == nil {
		return false
	}
	for _, r := range *refs {
		switch u := r.(type) {
		case *ssa.Store:
			if u.Val == a {
				return false
			}
		case *ssa.UnOp, *ssa.DebugRef:
		case *ssa.MakeClosure:
			crefs := u.Referrers()
			if crefs == nil {
				return false
			}
			for _, cr := range *crefs {
				switch cu := cr.(type) {
				case *ssa.Defer:
					if cu.Call.Value != u {
						return false
					}
				case *ssa.Call:
					if cu.Call.Value != u {
						return false
					}
				case *ssa.DebugRef:
				default:
					return false
				}
			}
		default:
			return false
		}
	}
	return true
}

// privateSlices: slice values of fn whose backing arrays were allocated by fn's own append calls and never
// leave fn except by being returned: append results and loop-carried phis over them, used only by
// append (as the slice appended to), len/cap, indexing, range and return.
func privateSlices(fn *ssa.Function, freshCall func(*ssa.Call) bool) map[ssa.Value]bool {
	cand := map[ssa.Value]bool{}
	for _, b := range fn.Blocks {
		for _, ins := range b.Instrs {
			switch v := ins.(type) {
			case *ssa.Call:
				if bi, ok := v.Call.Value.(*ssa.Builtin); ok && bi.Name() == "append" {
					cand[v] = true
				} else if _, isSl := types.Unalias(v.Type()).Underlying().(*types.Slice); isSl && freshCall != nil && freshCall(v) {
					// the callee's contract promises a newly allocated slice: it is this activation's own from here on
					cand[v] = true
				}
			case *ssa.Phi:
				if _, ok := types.Unalias(v.Type()).Underlying().(*types.Slice); ok {
					cand[v] = true
				}
			}
		}
	}
	ok := func(v ssa.Value) bool {
		if c, isC := v.(*ssa.Const); isC && c.Value == nil {
			return true
		}
		return cand[v]
	}
	for changed := true; changed; {
		changed = false
		for v := range cand {
			good := true
			switch x := v.(type) {
			case *ssa.Call:
				if bi, isB := x.Call.Value.(*ssa.Builtin); isB && bi.Name() == "append" {
					good = ok(x.Call.Args[0])
				}
			case *ssa.Phi:
				for _, e := range x.Edges {
					if !ok(e) {
						good = false
					}
				}
			}
			if refs := v.Referrers(); good && refs != nil {
				for _, r := range *refs {
					switch u := r.(type) {
					case *ssa.Call:
						bi, isB := u.Call.Value.(*ssa.Builtin)
						if !isB {
							good = false
						} else if bi.Name() == "append" {
							if u.Call.Args[0] != v || (len(u.Call.Args) > 1 && u.Call.Args[1] == v) {
								good = false
							}
						} else if bi.Name() != "len" && bi.Name() != "cap" {
							good = false
						}
					case *ssa.Phi:
						if !cand[u] {
							good = false
						}
					case *ssa.Return, *ssa.DebugRef:
					case *ssa.IndexAddr:
						for _, ar := range *u.Referrers() {
							if ld, isLd := ar.(*ssa.UnOp); !isLd || ld.Op != token.MUL {
								if _, isDbg := ar.(*ssa.DebugRef); !isDbg {
									good = false
								}
							}
						}
					default:
						good = false
					}
				}
			}
			if !good {
				delete(cand, v)
				changed = true
			}
		}
	}
	return cand
}

// preservePrivate re-establishes the values of private cells after a havoc from old to new state.
func (g *Gen) preservePrivate(f *Frame, old, nw *State, skip map[*ssa.Alloc]bool) {
	for fr := f; fr != nil; fr = fr.parent {
		if fr.privSl == nil {
			fr.privSl = privateSlices(fr.fn, g.freshCall)
		}
		for v := range fr.privSl {
			t, ok := fr.vals[v]
			if !ok {
				continue
			}
			sl, ok := types.Unalias(v.Type()).Underlying().(*types.Slice)
			if !ok {
				continue
			}
			comp, _ := g.elemComp(sl.Elem())
			g.assume("true", fmt.Sprintf("(=> (> (s_ref %[1]s) 0) (= (select %[2]s (s_ref %[1]s)) (select %[3]s (s_ref %[1]s))))", t.S, g.get(nw, comp), g.get(old, comp)))
		}
		for _, pc := range fr.private {
			if skip != nil && skip[pc.alloc] {
				continue
			}
			g.assume("true", fmt.Sprintf("(= (select %s %s) (select %s %s))", g.get(nw, pc.comp), pc.ref, g.get(old, pc.comp), pc.ref))
		}
	}
}

type privStruct struct {
	alloc *ssa.Alloc
	ref   string
	typ   types.Type
}

func (g *Gen) preservePrivateStructs(f *Frame, old, nw *State, skip map[*ssa.Alloc]bool) {
	for fr := f; fr != nil; fr = fr.parent {
		for _, ps := range fr.privStructs {
			if skip != nil && skip[ps.alloc] {
				continue
			}
			u := types.Unalias(ps.typ).Underlying().(*types.Struct)
			for k := 0; k < u.NumFields(); k++ {
				comp, _, _ := g.fieldComp(ps.typ, k)
				if g.get(nw, comp) == g.get(old, comp) {
					continue
				}
				g.assume("true", fmt.Sprintf("(= (select %s %s) (select %s %s))", g.get(nw, comp), ps.ref, g.get(old, comp), ps.ref))
			}
		}
	}
}

// isPrivateStructAlloc: a struct-typed local whose address is used only to read and assign it or its fields.
func isPrivateStructAlloc(a *ssa.Alloc) bool {
	refs := a.Referrers()
	if refs == nil {
		return false
	}
	for _, r := range *refs {
		switch u := r.(type) {
		case *ssa.Store:
			if u.Val == a {
				return false
			}
		case *ssa.UnOp, *ssa.DebugRef:
		case *ssa.FieldAddr:
			frefs := u.Referrers()
			if frefs == nil {
				return false
			}
			for _, fr := range *frefs {
				switch fu := fr.(type) {
				case *ssa.Store:
					if fu.Val == u {
						return false
					}
				case *ssa.UnOp, *ssa.DebugRef:
				default:
					return false
				}
			}
		default:
			return false
		}
	}
	return true
}

type loopCtx struct {
	rng       *ssa.Range
	names     map[string]*ssa.Phi
	vals      map[string]ssa.Value
	outer     map[string]*ssa.Phi
	autos     map[*ssa.Phi]string
	phis      []*ssa.Phi
	spec      *LoopSpec
	k         int
	varAtHead string
}

func (g *Gen) backEdge(f *Frame, from, hdr *ssa.BasicBlock, en string) {
	lc := f.loopHead[hdr.Index]
	if lc == nil {
		return
	}
	for phi, n := range lc.autos {
		for j, bp := range hdr.Preds {
			if bp == from {
				v := g.val(f, phi.Edges[j]).S
				g.oblige(fmt.Sprintf("inv#%d.auto.keep@b%d", lc.k, from.Index), "inv.keep", en, fmt.Sprintf("(and (<= (- 1) %[1]s) (< %[1]s %[2]s))", v, n), "range index within bounds", token.NoPos)
			}
		}
	}
	if lc.spec == nil {
		return
	}
	f.loopPhis = lc.phis
	f.loopNames = lc.names
	f.loopOuter = lc.outer
	f.loopVals = lc.vals
	f.loopRange = lc.rng
	for _, phi := range lc.phis {
		if phi.Comment == "rangeindex" {
			f.loopIdx = phi
		}
	}
	defer func() { f.loopIdx = nil; f.loopPhis = nil; f.loopNames = nil; f.loopRange = nil; f.loopVals = nil }()
	// evaluate invariant with phis := back-edge values in current state
	saved := map[*ssa.Phi]Term{}
	for _, phi := range lc.phis {
		saved[phi] = f.vals[phi]
	}
	newVals := map[*ssa.Phi]Term{}
	for _, phi := range lc.phis {
		for j, bp := range hdr.Preds {
			if bp == from {
				newVals[phi] = g.val(f, phi.Edges[j])
			}
		}
	}
	for _, phi := range lc.phis {
		f.vals[phi] = newVals[phi]
	}
	for _, inv := range lc.spec.Invariants {
		t := g.clause(f, inv, f.st, nil)
		g.oblige(fmt.Sprintf("inv#%d.%d.keep@b%d", lc.k, inv.Idx, from.Index), "inv.keep", en, t, inv.Text, token.NoPos)
	}
	if lc.spec.Decreases != nil {
		v := g.clauseTerm(f, lc.spec.Decreases, f.st, nil)
		g.oblige(fmt.Sprintf("var#%d@b%d", lc.k, from.Index), "var", en,
			fmt.Sprintf("(and (<= 0 %s) (< %s %s))", lc.varAtHead, v.S, lc.varAtHead), lc.spec.Decreases.Text, token.NoPos)
	}
	for _, phi := range lc.phis {
		f.vals[phi] = saved[phi]
	}
}

// loopDebugVals: source-level local variables that are used inside the loop, denote the same SSA value at every
// use there, and whose value is defined outside the loop (so it is the same in every iteration). Inside the
// clauses of that loop the source name denotes this value (e.g. a parameter that was reassigned before the loop).
func (g *Gen) loopDebugVals(fn *ssa.Function, blocks []*ssa.BasicBlock) map[string]ssa.Value {
	in := map[*ssa.BasicBlock]bool{}
	for _, b := range blocks {
		in[b] = true
	}
	out := map[string]ssa.Value{}
	bad := map[string]bool{}
	for _, b := range blocks {
		for _, ins := range b.Instrs {
			dr, ok := ins.(*ssa.DebugRef)
			if !ok || dr.IsAddr {
				continue
			}
			id, ok := dr.Expr.(*ast.Ident)
			if !ok || dr.Object() == nil {
				continue
			}
			if vo, isVar := dr.Object().(*types.Var); !isVar || vo.IsField() || vo.Pkg() == nil || vo.Parent() == vo.Pkg().Scope() {
				continue
			}
			if _, isConst := dr.X.(*ssa.Const); isConst {
				bad[id.Name] = true
				continue
			}
			if vi, isInstr := dr.X.(ssa.Instruction); isInstr && in[vi.Block()] {
				bad[id.Name] = true // defined inside the loop: differs between iterations
				continue
			}
			if prev, ok := out[id.Name]; ok && prev != dr.X {
				bad[id.Name] = true
				continue
			}
			out[id.Name] = dr.X
		}
	}
	for n := range bad {
		delete(out, n)
	}
	return out
}

func neverReturns(c *Contract) bool {
	for _, e := range c.Ensures {
		if id, ok := e.Expr.(*ast.Ident); ok && id.Name == "false" {
			return true
		}
	}
	return false
}

// freshCall: the contract of the called function (or interface method) states isfresh(result).
func (g *Gen) freshCall(c *ssa.Call) bool {
	var ct *Contract
	if c.Call.IsInvoke() {
		ct = g.ifaceContract(&c.Call)
	} else if fn, ok := c.Call.Value.(*ssa.Function); ok {
		ct = g.contracts[funcKey(fn)]
		if ct == nil {
			ct = g.contracts["ext."+extName(fn)]
		}
	}
	if ct == nil {
		return false
	}
	for _, e := range ct.Ensures {
		if strings.Contains(strings.ReplaceAll(e.Text, " ", ""), "isfresh(result)") && !strings.Contains(e.Text, "||") && !strings.Contains(e.Text, "implies") {
			return true
		}
	}
	return false
}
