package main

import (
	"os"
	"path/filepath"
	"sort"
	"strings"
)

type specFunc struct {
	params []string
	result string
}

// Specs are the spec functions available to contracts, written in SMT-LIB in /verif/spec/*.smt2.
type optSpec struct {
	file string
	text string
	syms []string
}

type Specs struct {
	opt    []optSpec // spec/opt/*.smt2: included only where one of their symbols is used
	text   string
	funcs  map[string]specFunc
	consts map[string]string
	files  []string
}

// parse top-level s-expressions (no comments inside strings assumed)
func sexprs(src string) []string {
	var out []string
	depth, start := 0, -1
	inStr, inCom := false, false
	for i := 0; i < len(src); i++ {
		c := src[i]
		if inCom {
			if c == '\n' {
				inCom = false
			}
			continue
		}
		if inStr {
			if c == '"' {
				inStr = false
			}
			continue
		}
		switch c {
		case ';':
			inCom = true
		case '"':
			inStr = true
		case '(':
			if depth == 0 {
				start = i
			}
			depth++
		case ')':
			depth--
			if depth == 0 && start >= 0 {
				out = append(out, src[start:i+1])
				start = -1
			}
		}
	}
	return out
}

// split an s-expression "(a b (c d) e)" into its top-level items
func sitems(s string) []string {
	s = strings.TrimSpace(s)
	if !strings.HasPrefix(s, "(") {
		return []string{s}
	}
	s = s[1 : len(s)-1]
	var out []string
	depth, start := 0, -1
	inStr := false
	for i := 0; i < len(s); i++ {
		c := s[i]
		if inStr {
			if c == '"' {
				inStr = false
			}
			continue
		}
		switch {
		case c == '"':
			inStr = true
			if depth == 0 && start < 0 {
				start = i
			}
		case c == '(':
			if depth == 0 && start < 0 {
				start = i
			}
			depth++
		case c == ')':
			depth--
			if depth == 0 {
				out = append(out, s[start:i+1])
				start = -1
			}
		case c == ' ' || c == '\n' || c == '\t' || c == '\r':
			if depth == 0 && start >= 0 {
				out = append(out, s[start:i])
				start = -1
			}
		default:
			if depth == 0 && start < 0 {
				start = i
			}
		}
	}
	if start >= 0 {
		out = append(out, s[start:])
	}
	return out
}

func normSort(s string) string {
	s = strings.Join(strings.Fields(s), " ")
	if s == "(_ FloatingPoint 11 53)" {
		return "F64"
	}
	return s
}

func loadSpecs(dir string, only []string) (*Specs, error) {
	sp := &Specs{funcs: map[string]specFunc{}, consts: map[string]string{}}
	files, _ := filepath.Glob(filepath.Join(dir, "*.smt2"))
	sort.Strings(files)
	optFiles, _ := filepath.Glob(filepath.Join(dir, "opt", "*.smt2"))
	sort.Strings(optFiles)
	isOpt := map[string]bool{}
	for _, f := range optFiles {
		isOpt[f] = true
	}
	files = append(files, optFiles...)
	for _, f := range files {
		if len(only) > 0 {
			ok := false
			for _, o := range only {
				if filepath.Base(f) == o+".smt2" {
					ok = true
				}
			}
			if !ok {
				continue
			}
		}
		b, err := os.ReadFile(f)
		if err != nil {
			return nil, err
		}
		sp.files = append(sp.files, f)
		var cur *optSpec
		if isOpt[f] {
			sp.opt = append(sp.opt, optSpec{file: f, text: "; ---- opt/" + filepath.Base(f) + "\n" + string(b) + "\n"})
			cur = &sp.opt[len(sp.opt)-1]
		} else {
			sp.text += "; ---- " + filepath.Base(f) + "\n" + string(b) + "\n"
		}
		for _, sx := range sexprs(string(b)) {
			if cur != nil {
				if it := sitems(sx); len(it) >= 2 && (it[0] == "define-fun" || it[0] == "define-fun-rec" || it[0] == "declare-fun") {
					cur.syms = append(cur.syms, it[1])
				}
			}
			it := sitems(sx)
			if len(it) < 4 {
				continue
			}
			switch it[0] {
			case "define-fun", "define-fun-rec":
				var ps []string
				for _, p := range sitems(it[2]) {
					pi := sitems(p)
					if len(pi) == 2 {
						ps = append(ps, normSort(pi[1]))
					}
				}
				if it[2] == "()" {
					ps = nil
				}
				sp.funcs[it[1]] = specFunc{ps, normSort(it[3])}
				if len(ps) == 0 {
					sp.consts[it[1]] = normSort(it[3])
				}
			case "declare-fun":
				var ps []string
				if it[2] != "()" {
					for _, p := range sitems(it[2]) {
						ps = append(ps, normSort(p))
					}
				}
				sp.funcs[it[1]] = specFunc{ps, normSort(it[3])}
				if len(ps) == 0 {
					sp.consts[it[1]] = normSort(it[3])
				}
			}
		}
	}
	return sp, nil
}
