package main

import (
	"bufio"
	"encoding/json"
	"flag"
	"fmt"
	"os"
	"path/filepath"
	"regexp"
	"sort"
	"strings"
	"sync"
	"time"

	"go/types"
	"os/exec"

	"golang.org/x/tools/go/ssa"
)

// aggregate name of an obligation: stable under edits that keep behaviour
var siteRe = regexp.MustCompile(`@[A-Za-z0-9_.]+$`)

func aggName(o *Obl) string { return aggNameOf(o.Name, o.Kind) }

func aggNameOf(name, kind string) string {
	o := &Obl{Name: name, Kind: kind}
	switch o.Kind {
	case "safety":
		// one aggregate per kind of runtime panic: safety:index, safety:nil-deref, safety:slice-bounds, ...
		if i := strings.Index(o.Name, ":"); i >= 0 {
			return "safety:" + o.Name[i+1:]
		}
		return "safety"
	case "frame":
		return "frame"
	case "table":
		return o.Name
	case "arith":
		return "arith"
	case "inv.init", "inv.keep":
		n := o.Name
		n = strings.TrimSuffix(siteRe.ReplaceAllString(n, ""), ".keep")
		n = strings.TrimSuffix(n, ".init")
		return n
	case "var":
		return siteRe.ReplaceAllString(o.Name, "")
	case "pre":
		// pre@callee#k@site -> pre@callee#k
		i := strings.LastIndex(o.Name, "@")
		if i > 4 {
			return o.Name[:i]
		}
	}
	return o.Name
}

type lockEntry struct {
	Prop, Func, Obl string
}

func readLock(path string) ([]lockEntry, error) {
	f, err := os.Open(path)
	if err != nil {
		return nil, err
	}
	defer f.Close()
	var out []lockEntry
	sc := bufio.NewScanner(f)
	for sc.Scan() {
		ln := strings.TrimSpace(sc.Text())
		if ln == "" || strings.HasPrefix(ln, "#") {
			continue
		}
		fs := strings.Fields(ln)
		if len(fs) != 3 {
			return nil, fmt.Errorf("bad lock line %q", ln)
		}
		out = append(out, lockEntry{fs[0], fs[1], fs[2]})
	}
	return out, sc.Err()
}

// props.map: "<property> <function key>" lines: which functions serve which property
func readPropsMap(path string) (map[string][]string, error) {
	f, err := os.Open(path)
	if err != nil {
		return nil, err
	}
	defer f.Close()
	out := map[string][]string{}
	sc := bufio.NewScanner(f)
	for sc.Scan() {
		ln := strings.TrimSpace(sc.Text())
		if ln == "" || strings.HasPrefix(ln, "#") {
			continue
		}
		fs := strings.Fields(ln)
		if len(fs) < 2 {
			return nil, fmt.Errorf("bad props.map line %q", ln)
		}
		out[fs[0]] = append(out[fs[0]], fs[1:]...)
	}
	return out, sc.Err()
}

type knownFinding struct {
	Prop, Func, Obl, Region, Text string
	Fixed                         bool
}

var kfRe = regexp.MustCompile(`^property=(\S+)\s+func=(\S+)\s+obligation=(\S+)\s+region=(.*?)\s+::\s+(.*)$`)

func readKnownFindings(path string) ([]knownFinding, error) {
	b, err := os.ReadFile(path)
	if err != nil {
		if os.IsNotExist(err) {
			return nil, nil
		}
		return nil, err
	}
	var out []knownFinding
	for _, ln := range strings.Split(string(b), "\n") {
		ln = strings.TrimSpace(ln)
		if ln == "" || strings.HasPrefix(ln, "#") || strings.HasPrefix(ln, "fixed:") {
			continue
		}
		m := kfRe.FindStringSubmatch(ln)
		if m == nil {
			return nil, fmt.Errorf("bad known-finding line %q", ln)
		}
		out = append(out, knownFinding{Prop: m[1], Func: m[2], Obl: m[3], Region: m[4], Text: m[5]})
	}
	return out, nil
}

type funcOutcome struct {
	boundedFirst string
	boundedCases int
	Key          string
	VC           *VCResult
	Res          map[int]OblResult
	SolveErr     string
	Secs         float64
}

// runFunctions generates and solves the VCs of the given functions in parallel.
func runFunctions(w *World, specs *Specs, contracts map[string]*Contract, keys []string, kfs []knownFinding, timeoutMs int, dir string, claimed map[string]map[string]bool) map[string]*funcOutcome {
	out := map[string]*funcOutcome{}
	var mu sync.Mutex
	// generation is sequential (shares go/types structures); solving is parallel
	var vcs []*funcOutcome
	for _, key := range keys {
		fo := &funcOutcome{Key: key}
		fn := w.Funcs[key]
		if strings.HasPrefix(key, "grammar:") {
			grammarOutcome(w, fo)
		} else if strings.HasPrefix(key, "lockset:") {
			locksetOutcome(w, fo)
		} else if strings.HasPrefix(key, "bounded:") {
			boundedOutcome(w, fo, kfs)
		} else if strings.HasPrefix(key, "maprange:") {
			maprangeOutcome(w, fo)
		} else if strings.HasPrefix(key, "globals:") {
			globalsOutcome(w, fo)
		} else if strings.HasPrefix(key, "footprint:") {
			footprintOutcome(w, fo)
		} else if strings.HasPrefix(key, "table:") {
			tableOutcome(w, fo, kfs)
		} else if fn == nil {
			fo.VC = &VCResult{Key: key, Err: fmt.Errorf("function %s not found in /repo", key)}
		} else {
			g := newGen(w, specs, contracts)
			for _, kf := range kfs {
				if kf.Func == key {
					g.regions = append(g.regions, kf)
				}
			}
			fo.VC = g.verifyFunction(fn, contracts[key])
		}
		out[key] = fo
		vcs = append(vcs, fo)
	}
	var wg sync.WaitGroup
	for _, fo := range vcs {
		if fo.VC.Err != nil || fo.Res != nil {
			continue
		}
		wg.Add(1)
		go func(fo *funcOutcome) {
			defer wg.Done()
			t0 := time.Now()
			var sel func(*Obl) bool
			if claimed != nil {
				cl := claimed[fo.Key]
				sel = func(o *Obl) bool {
					return o.Kind == "canary" || o.Kind == "kf.canary" || cl[aggName(o)]
				}
			}
			res, errs := solveSelected(fo.VC, dir, timeoutMs, sel)
			mu.Lock()
			fo.Res, fo.SolveErr, fo.Secs = res, errs, time.Since(t0).Seconds()
			mu.Unlock()
		}(fo)
	}
	wg.Wait()
	return out
}

type aggStatus struct {
	Total, Discharged int
	Failed            []*Obl
	FailStatus        []string
	Solver            map[string]int
	Secs              float64
}

var safetyKinds = []string{"index", "slice-bounds", "nil-deref", "nil-map-write", "nil-iface-call", "nil-func-call", "nil-chan-send",
	"type-assert", "div-by-zero", "float-to-int", "conv-range", "makeslice-len", "format-string", "close-chan"}

func aggregate(fo *funcOutcome) map[string]*aggStatus {
	m := map[string]*aggStatus{}
	if fo.VC.Err != nil {
		return m
	}
	if !strings.Contains(fo.VC.Key, ":") {
		// every kind of runtime failure has an aggregate for every function, also when the function contains no such
		// operation today: a change that introduces one (an index expression, a conversion, a non-constant format ...)
		// that cannot be shown safe then fails a claimed aggregate instead of going unnoticed
		for _, k := range safetyKinds {
			m["safety:"+k] = &aggStatus{Solver: map[string]int{}}
		}
	}
	for _, o := range fo.VC.Obls {
		if o.Kind == "canary" || o.Kind == "kf.canary" {
			continue
		}
		a := m[aggName(o)]
		if a == nil {
			a = &aggStatus{Solver: map[string]int{}}
			m[aggName(o)] = a
		}
		r, solved := fo.Res[o.Offset]
		if !solved {
			continue
		}
		a.Total++
		a.Secs += r.TimeS
		if r.Status == "unsat" {
			a.Discharged++
			a.Solver[r.Solver]++
		} else {
			a.Failed = append(a.Failed, o)
			a.FailStatus = append(a.FailStatus, r.Status)
		}
	}
	return m
}

func cmdRelock(args []string) {
	fs := flag.NewFlagSet("relock", flag.ExitOnError)
	timeout := fs.Int("timeout", 10000, "per-obligation solver timeout (ms)")
	maxSecs := fs.Float64("maxsecs", 4, "only lock obligations of functions whose whole script runs within timeout; informational")
	fs.Parse(args)
	_ = maxSecs
	vd := verifDir()
	w, err := loadWorld(nil)
	if err != nil {
		fatal(err)
	}
	defer w.Close()
	contracts, _, err := parseContracts(w.RepoDir)
	if err != nil {
		fatal(err)
	}
	specs, err := loadSpecs(vd+"/spec", nil)
	if err != nil {
		fatal(err)
	}
	pm, err := readPropsMap(vd + "/props.map")
	if err != nil {
		fatal(err)
	}
	kfs, err := readKnownFindings(vd + "/known_findings.txt")
	if err != nil {
		fatal(err)
	}
	var unlocked []string
	keyset := map[string]bool{}
	for _, ks := range pm {
		for _, k := range ks {
			keyset[k] = true
		}
	}
	var keys []string
	for k := range keyset {
		keys = append(keys, k)
	}
	sort.Strings(keys)
	if rest := fs.Args(); len(rest) > 0 {
		var sel []string
		for _, k := range keys {
			for _, r := range rest {
				if strings.Contains(k, r) {
					sel = append(sel, k)
					break
				}
			}
		}
		keys = sel
	}
	outs := runFunctions(w, specs, contracts, keys, kfs, *timeout, w.Scratch, nil)
	var props []string
	for p := range pm {
		props = append(props, p)
	}
	sort.Strings(props)
	// keep lock entries of functions not re-run
	old, _ := readLock(vd + "/obligations.lock")
	var lines []string
	for _, e := range old {
		if _, rerun := outs[e.Func]; !rerun {
			lines = append(lines, fmt.Sprintf("%s %s %s", e.Prop, e.Func, e.Obl))
		}
	}
	for _, p := range props {
		for _, k := range pm[p] {
			fo := outs[k]
			if fo == nil {
				continue
			}
			if fo.VC.Err != nil {
				fmt.Printf("!! %s: %v\n", k, fo.VC.Err)
				continue
			}
			ag := aggregate(fo)
			var names []string
			for n := range ag {
				names = append(names, n)
			}
			sort.Strings(names)
			for _, n := range names {
				a := ag[n]
				if a.Discharged == a.Total {
					lines = append(lines, fmt.Sprintf("%s %s %s", p, k, n))
				} else {
					fmt.Printf("-- not locked: %s %s %s (%d/%d) %v\n", p, k, n, a.Discharged, a.Total, a.FailStatus)
					unlocked = append(unlocked, fmt.Sprintf("%s %s %s (%d of %d discharged; answers %v)", p, k, n, a.Discharged, a.Total, uniq(a.FailStatus)))
					if strings.Contains(k, ":") {
						for _, o := range a.Failed {
							fmt.Printf("     %s\n", o.Descr)
						}
					}
				}
			}
		}
	}
	sort.Strings(unlocked)
	if len(fs.Args()) == 0 {
		os.WriteFile(vd+"/obligations.unlocked", []byte("# property function obligation(aggregate): generated from the contracts but NOT claimed - undischarged when the lock was written.\n# Obligations of kind pre@/inv/var/safety/arith are assumed to hold by the obligations that follow them in the same function\n# (assume-after-assert), so what is claimed for such a function is proved under these assumptions.\n"+strings.Join(uniq(unlocked), "\n")+"\n"), 0o644)
	}
	sort.Strings(lines)
	lines = uniq(lines)
	os.WriteFile(vd+"/obligations.lock", []byte("# property function obligation(aggregate) -- written by `gvc relock`; claimed = discharged on the pinned tree\n"+strings.Join(lines, "\n")+"\n"), 0o644)
	fmt.Printf("locked %d obligations\n", len(lines))
}

func uniq(xs []string) []string {
	var out []string
	for i, x := range xs {
		if i == 0 || x != xs[i-1] {
			out = append(out, x)
		}
	}
	return out
}

type Evidence struct {
	PropertyID  string                 `json:"property_id"`
	Tier        string                 `json:"tier"`
	Seed        int                    `json:"seed"`
	Level       string                 `json:"level"`
	Coverage    map[string]interface{} `json:"coverage"`
	Assumptions []string               `json:"assumptions"`
	WallS       float64                `json:"wall_s"`
	Violations  int                    `json:"violations"`
}

func cmdCheck(args []string) int {
	fs := flag.NewFlagSet("check", flag.ExitOnError)
	prop := fs.String("property", "", "property id")
	tier := fs.String("tier", "quick", "quick|thorough")
	fs.Parse(args)
	t0 := time.Now()
	vd := verifDir()
	seed := 0
	fmt.Sscan(os.Getenv("VERIF_SEED"), &seed)
	// obligations are locked only if they discharge within 10 s while the whole suite is being solved in parallel;
	// a check gives each of them three times that (twelve times in the thorough tier), so that a loaded machine does
	// not turn a slow proof into a false alarm
	timeout := 30000
	if *tier == "thorough" {
		timeout = 120000
		crossCheck = true
	}
	lock, err := readLock(vd + "/obligations.lock")
	if err != nil {
		fatal(err)
	}
	kfsAll, err := readKnownFindings(vd + "/known_findings.txt")
	if err != nil {
		fatal(err)
	}
	var kfs []knownFinding
	for _, k := range kfsAll {
		if k.Prop == *prop {
			kfs = append(kfs, k)
		}
	}
	claimed := map[string]map[string]bool{} // func -> agg -> claimed
	var keys []string
	for _, e := range lock {
		if e.Prop != *prop {
			continue
		}
		if claimed[e.Func] == nil {
			claimed[e.Func] = map[string]bool{}
			keys = append(keys, e.Func)
		}
		claimed[e.Func][e.Obl] = true
	}
	sort.Strings(keys)
	if only := os.Getenv("GVC_ONLY"); only != "" { // development aid: restrict the run to keys containing this text (the evidence then covers those only)
		var ks []string
		for _, k := range keys {
			if strings.Contains(k, only) {
				ks = append(ks, k)
			}
		}
		keys = ks
	}
	if len(keys) == 0 {
		fmt.Fprintf(os.Stderr, "gvc: no obligations claimed for %s\n", *prop)
		return 2
	}
	w, err := loadWorld(nil)
	if err != nil {
		fmt.Fprintln(os.Stderr, "gvc: cannot load /repo:", err)
		// the tree does not type-check: nothing can be regenerated
		return 2
	}
	defer w.Close()
	contracts, cfiles, err := parseContracts(w.RepoDir)
	if err != nil {
		fatal(err)
	}
	specs, err := loadSpecs(vd+"/spec", nil)
	if err != nil {
		fatal(err)
	}
	// known-finding regions apply to every function they name (not only for this property's copy)
	outs := runFunctions(w, specs, contracts, keys, kfsAll, timeout, w.Scratch, claimed)

	replayDir := filepath.Join(vd, "replay", *prop)
	os.MkdirAll(replayDir, 0o755)
	nObl, nDis, violations := 0, 0, 0
	broken := 0
	byKind := map[string]int{}
	bySolver := map[string]int{}
	var solverSecs float64
	var samples []string
	trusted := map[string]bool{}
	inlined := map[string]bool{}
	var funcsUnder []string
	var unclaimedArith []string
	var vioLines []string
	var boundedNotes []string
	nReplays := 0
	for _, key := range keys {
		fo := outs[key]
		if fo.VC.Err != nil {
			violations++
			path := filepath.Join(replayDir, sanitize(key)+".txt")
			os.WriteFile(path, []byte(fmt.Sprintf("function: %s\nobligations claimed in obligations.lock cannot be regenerated from /repo's current source:\n%v\n", key, fo.VC.Err)), 0o644)
			vioLines = append(vioLines, fmt.Sprintf("VIOLATION property=%s replay=%s obligation=%s/* no-failing-input-found", *prop, path, key))
			continue
		}
		funcsUnder = append(funcsUnder, key)
		for _, t := range fo.VC.Trusted {
			trusted[t] = true
		}
		for _, t := range fo.VC.Inlined {
			inlined[t] = true
		}
		solverSecs += fo.Secs
		// canaries
		for _, o := range fo.VC.Obls {
			if o.Kind == "canary" && fo.Res[o.Offset].Status == "unsat" {
				fmt.Printf("BROKEN-CHECK: vacuity canary %s of %s is provable: the contract's assumptions are contradictory\n", o.Name, key)
				broken++
			}
		}
		ag := aggregate(fo)
		var names []string
		for n := range claimed[key] {
			names = append(names, n)
		}
		sort.Strings(names)
		for _, n := range names {
			a := ag[n]
			if a == nil {
				// the claimed obligation no longer exists (contract clause or code construct removed)
				if strings.HasPrefix(n, "safety") || n == "arith" || n == "frame" {
					// no safety-relevant operation left: trivially holds
					continue
				}
				violations++
				path := filepath.Join(replayDir, sanitize(key+"."+n)+".txt")
				os.WriteFile(path, []byte(fmt.Sprintf("obligation: %s/%s\nclaimed in obligations.lock but no longer generated from /repo's current source and contracts\n", key, n)), 0o644)
				vioLines = append(vioLines, fmt.Sprintf("VIOLATION property=%s replay=%s obligation=%s/%s no-failing-input-found", *prop, path, key, n))
				continue
			}
			if strings.HasPrefix(key, "bounded:") {
				// a bounded stand-in is reported separately and never counted as proved
				boundedNotes = append(boundedNotes, fmt.Sprintf("%s: %s", key, fo.VC.Obls[0].Descr))
			} else {
				nObl += a.Total
				nDis += a.Discharged
				byKind[kindOfAgg(n)] += a.Total
			}
			for s, c := range a.Solver {
				bySolver[s] += c
			}
			if len(samples) < 12 {
				samples = append(samples, key+"/"+n)
			}
			if a.Discharged != a.Total {
				violations++
				path := writeReplay(w, fo, key, n, a, replayDir, timeout)
				confirmed := false
				if strings.HasPrefix(key, "bounded:") {
					// the harness ran the real function: its first failing input is the replayed input
					confirmed = fo.boundedFirst != ""
				} else if nReplays < 8 {
					nReplays++
					confirmed = tryReplay(w, fo, key, n, a, path)
				} else if lf, err := os.OpenFile(path, os.O_APPEND|os.O_WRONLY, 0o644); err == nil {
					fmt.Fprintf(lf, "\n---- replay on the real code ----\nnot attempted: this run already replayed 8 counterexamples\n")
					lf.Close()
				}
				line := fmt.Sprintf("VIOLATION property=%s replay=%s obligation=%s/%s", *prop, path, key, n)
				if !confirmed {
					line += " no-failing-input-found"
				}
				vioLines = append(vioLines, line)
			}
		}
		if a := ag["arith"]; a != nil && !claimed[key]["arith"] && a.Discharged != a.Total {
			unclaimedArith = append(unclaimedArith, fmt.Sprintf("%s (%d of %d overflow obligations undischarged)", key, a.Total-a.Discharged, a.Total))
		}
	}
	// known findings
	for _, kf := range kfs {
		fmt.Printf("KNOWN-FINDING: property=%s %s [%s/%s outside region: %s]\n", kf.Prop, kf.Text, kf.Func, kf.Obl, kf.Region)
	}
	for _, l := range vioLines {
		fmt.Println(l)
	}
	var assumptions []string
	for t := range trusted {
		assumptions = append(assumptions, t)
	}
	sort.Strings(assumptions)
	assumptions = append(assumptions,
		"go/types + go/ssa build a faithful SSA form of /repo's source; gvc's encoding of SSA into SMT-LIB (DESIGN.md section 2) is sound",
		"SMT solvers (z3 5.1, cvc5 1.0, z3 4.8.12) answer unsat only for unsatisfiable queries",
		"integers are mathematical; every + - * and narrowing conversion has an overflow obligation (kind arith) - functions where those are not claimed are listed under coverage.machine_arithmetic_assumed")
	sort.Strings(funcsUnder)
	var inl []string
	for k := range inlined {
		inl = append(inl, k)
	}
	sort.Strings(inl)
	ev := Evidence{PropertyID: *prop, Tier: *tier, Seed: seed, Level: "proof", WallS: time.Since(t0).Seconds(), Violations: violations,
		Assumptions: assumptions,
		Coverage: map[string]interface{}{
			"obligations":                nObl,
			"discharged":                 nDis,
			"checker_cmd":                fmt.Sprintf("bin/gvc check -property %s -tier %s", *prop, *tier),
			"trusted_base":               []string{"go/packages+go/ssa (x/tools v0.29.0)", "gvc VC generator (/verif/gvc)", "z3-new 5.1.0", "cvc5 1.0", "z3 4.8.12", "goyacc (leafref.go overlay)", "spec functions in /verif/spec/*.smt2 transcribed from XPath 1.0 / RFC 6020 / RFC 7951"},
			"functions_under_contract":   funcsUnder,
			"inlined_callees":            inl,
			"obligations_by_kind":        byKind,
			"discharged_by_backend":      bySolver,
			"solver_time_s":              solverSecs,
			"samples":                    samples,
			"contract_files":             relPaths(cfiles, w.RepoDir),
			"known_findings_printed":     len(kfs),
			"machine_arithmetic_assumed": unclaimedArith,
			"per_obligation_timeout_ms":  timeout,
			"bounded_standins":           boundedNotes,
			"explanation":                "every claimed obligation (obligations.lock) is regenerated from /repo's working tree and must be answered unsat by a solver",
		}}
	if crossCheck {
		agree, undecided := 0, 0
		var disagreements []string
		for key, fo := range outs {
			for off, r := range fo.Res {
				if r.Cross == "" {
					continue
				}
				for _, c := range strings.Fields(r.Cross) {
					switch {
					case strings.HasSuffix(c, ":unsat"):
						agree++
					case strings.HasSuffix(c, ":sat"):
						disagreements = append(disagreements, fmt.Sprintf("%s obligation #%d: %s says unsat, %s", key, off, r.Solver, c))
					default:
						undecided++
					}
				}
			}
		}
		sort.Strings(disagreements)
		ev.Coverage["cross_check"] = map[string]interface{}{
			"what":                      "every obligation discharged by one solver was also given to the other two (IEEE-precise script, same time-out)",
			"second_opinions_agreeing":  agree,
			"second_opinions_undecided": undecided,
			"disagreements":             disagreements,
		}
		for _, d := range disagreements {
			fmt.Println("SOLVER-DISAGREEMENT:", d)
		}
	}
	os.MkdirAll(filepath.Join(vd, "evidence"), 0o755)
	b, _ := json.MarshalIndent(ev, "", " ")
	os.WriteFile(filepath.Join(vd, "evidence", *prop+".json"), b, 0o644)
	fmt.Printf("%s: %d/%d obligations discharged over %d functions, %d violations, %.1fs\n", *prop, nDis, nObl, len(funcsUnder), violations, time.Since(t0).Seconds())
	if violations > 0 {
		return 1
	}
	if broken > 0 {
		return 2
	}
	return 0
}

func kindOfAgg(n string) string {
	for _, p := range []string{"post", "pre@", "inv", "var", "safety", "arith", "nopanic", "exsure", "table", "frame", "lemma"} {
		if strings.HasPrefix(n, p) {
			return strings.TrimSuffix(p, "@")
		}
	}
	return "other"
}

func relPaths(ps []string, base string) []string {
	var out []string
	for _, p := range ps {
		r, err := filepath.Rel(base, p)
		if err == nil {
			out = append(out, r)
		}
	}
	return out
}

// writeReplay records the failed obligation, the solver's verdicts and (when available) a model of the inputs.
func writeReplay(w *World, fo *funcOutcome, key, agg string, a *aggStatus, dir string, timeoutMs int) string {
	path := filepath.Join(dir, sanitize(key+"."+agg)+".txt")
	var b strings.Builder
	fmt.Fprintf(&b, "failed obligation: %s/%s\n", key, agg)
	for i, o := range a.Failed {
		fmt.Fprintf(&b, "  %s at %s: solver answer %s  -- %s\n", o.Name, o.Pos, a.FailStatus[i], o.Descr)
	}
	// model of the first failed obligation with answer sat
	for i, o := range a.Failed {
		if a.FailStatus[i] != "sat" {
			continue
		}
		model := modelFor(fo.VC, o, w.Scratch, timeoutMs)
		fmt.Fprintf(&b, "\ncounterexample (solver model of the function's inputs) for %s:\n%s\n", o.Name, model)
		break
	}
	os.WriteFile(path, []byte(b.String()), 0o644)
	return path
}

// modelFor re-runs the script up to the failed obligation and asks for the values of the inputs.
func modelFor(vc *VCResult, o *Obl, dir string, timeoutMs int) string {
	if os.Getenv("GVC_FAST") != "" { // tools/seed_status.py: only the verdict matters there
		return "(no model: marker not found) - model extraction skipped (GVC_FAST)"
	}
	marker := fmt.Sprintf(";;ENDOBL %d\n", o.Offset)
	i := strings.Index(vc.Script, marker)
	if i < 0 {
		return "(no model: marker not found)"
	}
	pre := vc.Script[:i]
	// drop the trailing "(pop 1)" so that the model of the negated obligation is still current
	j := strings.LastIndex(pre, "(pop 1)")
	if j >= 0 {
		pre = pre[:j]
	}
	var terms []string
	for _, in := range vc.Inputs {
		terms = append(terms, in.S)
	}
	terms = append(terms, vc.Observe...)
	if len(terms) == 0 {
		return "(function has no inputs)"
	}
	var out strings.Builder
	path := filepath.Join(dir, sanitize(vc.Key)+fmt.Sprintf(".model%d.smt2", o.Offset))
	script := pre
	for _, t := range terms {
		script += fmt.Sprintf("(get-value (%s))\n", t)
	}
	os.WriteFile(path, []byte(strings.Replace(script, ";;FPDEFS\n", fpPrecise, 1)), 0o644)
	for _, s := range solvers(timeoutMs) {
		res, _, _ := runScriptRaw(s, path, time.Duration(timeoutMs*3)*time.Millisecond+20*time.Second)
		k := strings.LastIndex(res, fmt.Sprintf("OBL %d", o.Offset))
		if k >= 0 {
			tail := res[k:]
			if strings.Contains(tail, "\nsat") {
				fmt.Fprintf(&out, "solver %s:\n%s\n", s.Name, strings.TrimSpace(tail))
				return out.String()
			}
		}
	}
	return "(no model obtained)"
}

func tryReplay(w *World, fo *funcOutcome, key, agg string, a *aggStatus, path string) bool {
	if os.Getenv("GVC_FAST") != "" {
		return false
	}
	return replayOnRealCode(w, fo, key, agg, a, path)
}

// tableOutcome evaluates a table obligation set: the literal in /repo against /verif/spec/tables/<name>.json.
func tableOutcome(w *World, fo *funcOutcome, kfs []knownFinding) {
	name := strings.TrimPrefix(fo.Key, "table:")
	fo.VC = &VCResult{Key: fo.Key}
	b, err := os.ReadFile(filepath.Join(verifDir(), "spec", "tables", name+".json"))
	if err != nil {
		fo.VC.Err = err
		return
	}
	var ts tableSpec
	if err := json.Unmarshal(b, &ts); err != nil {
		fo.VC.Err = fmt.Errorf("table spec %s: %v", name, err)
		return
	}
	rows, err := w.checkTable(&ts, nil)
	if err != nil {
		fo.VC.Err = err
		return
	}
	fo.Res = map[int]OblResult{}
	for i, r := range rows {
		o := &Obl{Name: "row[" + r.Name + "]", Kind: "table", Offset: i, Func: fo.Key, Pos: strings.TrimPrefix(r.Pos, w.RepoDir+"/"),
			Descr: fmt.Sprintf("%s[%s]: literal in /repo = %s ; expected (%s) = %s", ts.Table, r.Name, r.Actual, ts.Source, r.Expected)}
		fo.VC.Obls = append(fo.VC.Obls, o)
		st := "unsat"
		if !r.OK {
			st = "sat"
			// a recorded finding tolerates exactly the recorded content of this row, nothing else
			for _, kf := range kfs {
				if kf.Func == fo.Key && kf.Obl == o.Name && kf.Region == "actual:"+r.Actual {
					st = "unsat"
				}
			}
		}
		fo.Res[i] = OblResult{Status: st, Solver: "const-eval"}
	}
	// the literal is what the program uses only if nothing writes the table (or one of its rows) after initialisation
	{
		i := len(fo.VC.Obls)
		k := strings.LastIndex(ts.Table, ".")
		var gl *ssa.Global
		if sp := w.SSAPkgs[modPath+"/"+ts.Table[:k]]; sp != nil {
			gl, _ = sp.Members[ts.Table[k+1:]].(*ssa.Global)
		}
		st := "sat"
		if gl != nil && w.immutableTable(gl) {
			st = "unsat"
		}
		fo.VC.Obls = append(fo.VC.Obls, &Obl{Name: "immutable", Kind: "table", Offset: i, Func: fo.Key,
			Descr: "the table and its rows are only looked up, ranged over or measured after package initialisation (go/ssa scan, following rows returned to callers)"})
		fo.Res[i] = OblResult{Status: st, Solver: "ssa-scan"}
	}
	fo.VC.Trusted = []string{"table " + ts.Table + ": go/types constant evaluation of the composite literal; expected content transcribed by hand from " + ts.Source}
}

// footprintOutcome: the functions that read / write a field are exactly the listed ones (scan of the SSA of every module function).
func footprintOutcome(w *World, fo *funcOutcome) {
	name := strings.TrimPrefix(fo.Key, "footprint:")
	fo.VC = &VCResult{Key: fo.Key}
	b, err := os.ReadFile(filepath.Join(verifDir(), "spec", "footprints", name+".json"))
	if err != nil {
		fo.VC.Err = err
		return
	}
	var fs footprintSpec
	if err := json.Unmarshal(b, &fs); err != nil {
		fo.VC.Err = err
		return
	}
	readers, writers := w.fieldFootprint(fs.Field)
	fo.Res = map[int]OblResult{}
	add := func(what string, got map[string]bool, allowed []string) {
		ok := map[string]bool{}
		for _, a := range allowed {
			ok[a] = true
		}
		var extra []string
		for k := range got {
			if !ok[k] {
				extra = append(extra, k)
			}
		}
		sort.Strings(extra)
		i := len(fo.VC.Obls)
		fo.VC.Obls = append(fo.VC.Obls, &Obl{Name: what, Kind: "table", Offset: i, Func: fo.Key,
			Descr: fmt.Sprintf("field %s is %s only by %v; additional functions found: %v (%s)", fs.Field, what, allowed, extra, fs.Why)})
		st := "unsat"
		if len(extra) > 0 || len(got) == 0 {
			// an empty scan result would make the obligation vacuous: the field must be found
			st = "sat"
		}
		fo.Res[i] = OblResult{Status: st, Solver: "ssa-scan"}
	}
	add("written", writers, fs.Writers)
	if len(fs.Readers) != 1 || fs.Readers[0] != "*" { // "*": anybody may read
		add("read", readers, fs.Readers)
	}
	fo.VC.Trusted = []string{"footprint of " + fs.Field + ": syntactic scan of go/ssa FieldAddr instructions in every function of the module (reflection/unsafe not considered)"}
}

type globalsSpec struct {
	Packages []string          `json:"packages"` // module-relative package paths
	Allowed  map[string]string `json:"allowed"`  // "<relpkg>.<var>" -> justification
	Why      string            `json:"why"`
}

func hasRefs(t types.Type, depth int) bool {
	if depth > 6 {
		return true
	}
	switch u := types.Unalias(t).Underlying().(type) {
	case *types.Basic:
		return u.Kind() == types.UnsafePointer
	case *types.Struct:
		for i := 0; i < u.NumFields(); i++ {
			if hasRefs(u.Field(i).Type(), depth+1) {
				return true
			}
		}
		return false
	case *types.Array:
		return hasRefs(u.Elem(), depth+1)
	}
	return true
}

// globalsOutcome: shared mutable state. Every package-level variable of the listed packages that is used outside
// package initialisation must be (a) of a reference-free type and never written outside init, or (b) an
// immutable table (composite literal, only looked up), or (c) listed as allowed with a justification.
func globalsOutcome(w *World, fo *funcOutcome) {
	name := strings.TrimPrefix(fo.Key, "globals:")
	fo.VC = &VCResult{Key: fo.Key}
	b, err := os.ReadFile(filepath.Join(verifDir(), "spec", "footprints", "globals_"+name+".json"))
	if err != nil {
		fo.VC.Err = err
		return
	}
	var gs globalsSpec
	if err := json.Unmarshal(b, &gs); err != nil {
		fo.VC.Err = err
		return
	}
	fo.Res = map[int]OblResult{}
	type use struct {
		readers, writers map[string]bool
		gl               *ssa.Global
	}
	uses := map[string]*use{}
	inPkg := func(p *ssa.Package) bool {
		if p == nil {
			return false
		}
		for _, rp := range gs.Packages {
			if relPkg(p.Pkg.Path()) == rp {
				return true
			}
		}
		return false
	}
	var scan func(fn *ssa.Function)
	scan = func(fn *ssa.Function) {
		if fn.Parent() == nil && (fn.Name() == "init" || strings.HasPrefix(fn.Name(), "init#")) {
			return
		}
		for _, blk := range fn.Blocks {
			for _, ins := range blk.Instrs {
				for _, op := range ins.Operands(nil) {
					gl, ok := (*op).(*ssa.Global)
					if !ok || !inPkg(gl.Pkg) {
						continue
					}
					k := relPkg(gl.Pkg.Pkg.Path()) + "." + gl.Name()
					u := uses[k]
					if u == nil {
						u = &use{map[string]bool{}, map[string]bool{}, gl}
						uses[k] = u
					}
					if st, isStore := ins.(*ssa.Store); isStore && st.Addr == gl {
						u.writers[funcKey(fn)] = true
					} else {
						u.readers[funcKey(fn)] = true
					}
				}
			}
		}
		for _, a := range fn.AnonFuncs {
			scan(a)
		}
	}
	nfuncs := 0
	for _, fn := range w.Funcs {
		if fn.Parent() == nil && fn.Pkg != nil {
			nfuncs++
			scan(fn)
		}
	}
	var keys []string
	for k := range uses {
		keys = append(keys, k)
	}
	sort.Strings(keys)
	addObl := func(name, descr string, ok bool) {
		i := len(fo.VC.Obls)
		fo.VC.Obls = append(fo.VC.Obls, &Obl{Name: name, Kind: "table", Offset: i, Func: fo.Key, Descr: descr})
		st := "unsat"
		if !ok {
			st = "sat"
		}
		fo.Res[i] = OblResult{Status: st, Solver: "ssa-scan"}
	}
	var offenders []string
	for _, k := range keys {
		u := uses[k]
		if _, ok := gs.Allowed[k]; ok {
			continue
		}
		elem := ptrElem(u.gl.Type())
		switch {
		case len(u.writers) > 0:
			offenders = append(offenders, fmt.Sprintf("%s is written outside package initialisation by %v", k, sortedSet(u.writers)))
		case hasRefs(elem, 0) && !w.immutableTable(u.gl):
			offenders = append(offenders, fmt.Sprintf("%s (type %s) can reach mutable shared state and is used by %v", k, elem, sortedSet(u.readers)))
		}
	}
	addObl("no-shared-mutable-state", fmt.Sprintf("package-level variables of %v used outside initialisation are reference-free and never written, or immutable tables, or allowed: %v (%s)", gs.Packages, offenders, gs.Why), len(offenders) == 0)
	// allowed entries must exist (a stale allow-list would hide nothing but is reported)
	var stale []string
	for k := range gs.Allowed {
		if uses[k] == nil {
			stale = append(stale, k)
		}
	}
	sort.Strings(stale)
	addObl("allow-list-current", fmt.Sprintf("every allowed variable is still used: stale %v", stale), len(stale) == 0)
	addObl("scan-not-empty", fmt.Sprintf("%d functions scanned", nfuncs), nfuncs > 0)
	fo.VC.Trusted = []string{"shared state of " + strings.Join(gs.Packages, ", ") + ": syntactic scan of go/ssa Global operands in every function of the module (reflection/unsafe/cgo not considered); allowed: " + fmt.Sprint(gs.Allowed)}
}

func sortedSet(m map[string]bool) []string {
	var out []string
	for k := range m {
		out = append(out, k)
	}
	sort.Strings(out)
	return out
}

type maprangeSpec struct {
	Packages []string `json:"packages"`
	Loops    map[string]struct {
		Count int    `json:"count"` // number of such loops in the function
		Why   string `json:"why"`   // why their outcome does not depend on the iteration order
	} `json:"loops"` // key: "<function key> <map type>"
	Why string `json:"why"`
	// Sorts: for the loops whose reason is "the collected keys are sorted before use": function key -> number of
	// calls that sort a slice of strings or integers by the canonical total order of its elements (sort.Strings,
	// sort.Ints, slices.Sort). Those functions must contain exactly that many such calls and no sort with a custom
	// comparator (sort.Slice, sort.SliceStable, sort.Sort, sort.Stable, slices.SortFunc, slices.SortStableFunc).
	Sorts map[string]int `json:"canonical_sorts"`
}

// maprangeOutcome: Go iterates over maps in an unspecified order. Every `range` over a map in the listed packages
// must be on the reviewed list (with the reason its outcome is independent of the order); a new or moved loop fails.
func maprangeOutcome(w *World, fo *funcOutcome) {
	name := strings.TrimPrefix(fo.Key, "maprange:")
	fo.VC = &VCResult{Key: fo.Key}
	b, err := os.ReadFile(filepath.Join(verifDir(), "spec", "footprints", "maprange_"+name+".json"))
	if err != nil {
		fo.VC.Err = err
		return
	}
	var ms maprangeSpec
	if err := json.Unmarshal(b, &ms); err != nil {
		fo.VC.Err = err
		return
	}
	fo.Res = map[int]OblResult{}
	found := map[string]int{}
	var scan func(fn *ssa.Function)
	scan = func(fn *ssa.Function) {
		for _, blk := range fn.Blocks {
			for _, ins := range blk.Instrs {
				if r, ok := ins.(*ssa.Range); ok {
					if mt, isMap := types.Unalias(r.X.Type()).Underlying().(*types.Map); isMap {
						found[funcKey(fn)+" "+types.TypeString(mt, func(p *types.Package) string { return p.Name() })]++
					}
				}
			}
		}
		for _, a := range fn.AnonFuncs {
			scan(a)
		}
	}
	n := 0
	for _, fn := range w.Funcs {
		if fn.Parent() != nil || fn.Pkg == nil {
			continue
		}
		for _, rp := range ms.Packages {
			if relPkg(fn.Pkg.Pkg.Path()) == rp {
				n++
				scan(fn)
			}
		}
	}
	addObl := func(name, descr string, ok bool) {
		i := len(fo.VC.Obls)
		fo.VC.Obls = append(fo.VC.Obls, &Obl{Name: name, Kind: "table", Offset: i, Func: fo.Key, Descr: descr})
		st := "unsat"
		if !ok {
			st = "sat"
		}
		fo.Res[i] = OblResult{Status: st, Solver: "ssa-scan"}
	}
	var unlisted, stale []string
	for k, n := range found {
		if l, ok := ms.Loops[k]; !ok {
			unlisted = append(unlisted, k)
		} else if l.Count != n {
			unlisted = append(unlisted, fmt.Sprintf("%s (%d loops found, %d reviewed)", k, n, l.Count))
		}
	}
	for k := range ms.Loops {
		if found[k] == 0 {
			stale = append(stale, k)
		}
	}
	sort.Strings(unlisted)
	sort.Strings(stale)
	addObl("no-unreviewed-map-iteration", fmt.Sprintf("every range over a map in %v is on the reviewed list; not listed: %v (%s)", ms.Packages, unlisted, ms.Why), len(unlisted) == 0)
	addObl("list-current", fmt.Sprintf("every listed loop still exists: stale %v", stale), len(stale) == 0)
	addObl("scan-not-empty", fmt.Sprintf("%d functions scanned", n), n > 0)
	if len(ms.Sorts) > 0 {
		var bad []string
		for fk, want := range ms.Sorts {
			fn := w.Funcs[fk]
			if fn == nil {
				bad = append(bad, fk+" (no such function)")
				continue
			}
			canon, custom := 0, 0
			var cnt func(f *ssa.Function)
			cnt = func(f *ssa.Function) {
				for _, blk := range f.Blocks {
					for _, ins := range blk.Instrs {
						ci, ok := ins.(ssa.CallInstruction)
						if !ok {
							continue
						}
						callee := ci.Common().StaticCallee()
						if callee == nil {
							continue
						}
						switch nm := extName(callee); {
						case nm == "sort.Strings" || nm == "sort.Ints" || strings.HasPrefix(nm, "slices.Sort[") || nm == "slices.Sort":
							canon++
						case nm == "sort.Slice" || nm == "sort.SliceStable" || nm == "sort.Sort" || nm == "sort.Stable" || strings.HasPrefix(nm, "slices.SortFunc") || strings.HasPrefix(nm, "slices.SortStableFunc"):
							custom++
						}
					}
				}
				for _, a := range f.AnonFuncs {
					cnt(a)
				}
			}
			cnt(fn)
			if canon != want || custom != 0 {
				bad = append(bad, fmt.Sprintf("%s (%d canonical sorts found, %d reviewed; %d sorts with a custom comparator)", fk, canon, want, custom))
			}
		}
		sort.Strings(bad)
		addObl("collected-keys-sorted-canonically", fmt.Sprintf("the functions whose map iterations are order-independent because the collected keys are sorted use the canonical order of the keys (sort.Strings / sort.Ints / slices.Sort), as often as reviewed, and no custom comparator: %v", bad), len(bad) == 0)
	}
	fo.VC.Trusted = []string{fmt.Sprintf("order-independence of the %d reviewed map iterations in %v is argued per loop in spec/footprints/maprange_%s.json, not proved", len(ms.Loops), ms.Packages, name)}
}

type boundedSpec struct {
	Package  string `json:"package"`
	Test     string `json:"test"`
	Harness  string `json:"harness"`
	MinCases int    `json:"min_cases"`
	Function string `json:"function"`
	Bound    string `json:"bound"`
	Oracle   string `json:"oracle"`
}

// boundedOutcome runs a bounded stand-in: a harness (kept under /verif/spec/bounded) is injected into the package with
// go test -overlay and exercises the REAL function on a stated, systematically enumerated set of inputs against an
// exact oracle. It is labelled bounded everywhere and never counted as proved.
func boundedOutcome(w *World, fo *funcOutcome, kfs []knownFinding) {
	name := strings.TrimPrefix(fo.Key, "bounded:")
	fo.VC = &VCResult{Key: fo.Key}
	dirSpec := filepath.Join(verifDir(), "spec", "bounded")
	b, err := os.ReadFile(filepath.Join(dirSpec, name+".json"))
	if err != nil {
		fo.VC.Err = err
		return
	}
	var bs boundedSpec
	if err := json.Unmarshal(b, &bs); err != nil {
		fo.VC.Err = err
		return
	}
	src, err := os.ReadFile(filepath.Join(dirSpec, bs.Harness))
	if err != nil {
		fo.VC.Err = err
		return
	}
	dir, err := os.MkdirTemp(w.Scratch, "bounded")
	if err != nil {
		fo.VC.Err = err
		return
	}
	testFile := filepath.Join(dir, "zz_gvc_bounded_test.go")
	os.WriteFile(testFile, src, 0o644)
	repl := map[string]string{filepath.Join(w.RepoDir, bs.Package, "zz_gvc_bounded_test.go"): testFile}
	k := 0
	for target, content := range w.Overlay {
		k++
		f := filepath.Join(dir, fmt.Sprintf("overlay%d.go", k))
		os.WriteFile(f, content, 0o644)
		repl[target] = f
	}
	ov, _ := json.Marshal(map[string]interface{}{"Replace": repl})
	ovFile := filepath.Join(dir, "overlay.json")
	os.WriteFile(ovFile, ov, 0o644)
	cmd := exec.Command("go", "test", "-overlay", ovFile, "-vet=off", "-v", "-count=1", "-timeout", "300s", "-run", "^"+bs.Test+"$", "./"+bs.Package)
	cmd.Dir = w.RepoDir
	cmd.Env = goEnv()
	// recorded findings of this stand-in: the harness leaves out exactly the inputs a known_findings.txt line names
	// (it reads them from the environment, so removing the line brings the failure back)
	var regions []string
	if all, err := readKnownFindings(verifDir() + "/known_findings.txt"); err == nil {
		kfs = all // the stand-in may serve several properties; the finding is listed under one of them
	}
	for _, kf := range kfs {
		if kf.Func == fo.Key {
			regions = append(regions, kf.Region)
		}
	}
	cmd.Env = append(cmd.Env, "GVC_KNOWN_REGIONS="+strings.Join(regions, "\n"))
	t0 := time.Now()
	out, _ := cmd.CombinedOutput()
	secs := time.Since(t0).Seconds()
	cases, failures, first := -1, -1, ""
	for _, ln := range strings.Split(string(out), "\n") {
		if strings.HasPrefix(ln, "GVCBOUNDED ") {
			fmt.Sscanf(ln, "GVCBOUNDED cases=%d failures=%d", &cases, &failures)
			if i := strings.Index(ln, "first="); i >= 0 {
				first = ln[i+6:]
			}
		}
	}
	fo.Res = map[int]OblResult{}
	st, descr := "unsat", fmt.Sprintf("BOUNDED (not a proof): %s agrees with the oracle on all %d enumerated inputs; bound: %s; oracle: %s", bs.Function, cases, bs.Bound, bs.Oracle)
	switch {
	case cases < 0:
		st, descr = "error", "the bounded harness did not run to its end:\n"+tail(string(out), 1200)
	case failures > 0:
		st, descr = "sat", fmt.Sprintf("BOUNDED check: %d of %d enumerated inputs disagree with the oracle; first failing input: %s", failures, cases, first)
	case cases < bs.MinCases:
		st, descr = "sat", fmt.Sprintf("BOUNDED check ran only %d cases, the stated bound needs at least %d", cases, bs.MinCases)
	}
	fo.VC.Obls = append(fo.VC.Obls, &Obl{Name: "bounded-agreement", Kind: "bounded", Offset: 0, Func: fo.Key, Descr: descr})
	fo.Res[0] = OblResult{Status: st, Solver: "go test (bounded enumeration)", TimeS: secs}
	fo.VC.Trusted = []string{"bounded stand-in for " + bs.Function + ": " + bs.Bound + " - inputs outside this enumeration are NOT covered; the oracle (" + bs.Oracle + ") is hand-written"}
	fo.boundedFirst = first
	fo.boundedCases = cases
}

type locksetSpec struct {
	Mutex      string   `json:"mutex"`        // "<relpkg>.<var>"
	Guards     []string `json:"guards"`       // package-level variables the mutex protects
	HeldOnCall []string `json:"held_on_call"` // functions documented as "the caller holds the mutex"
	Why        string   `json:"why"`
}

// locksetOutcome: lock discipline by a flow-sensitive go/ssa dataflow, one function at a time. The state at a program
// point is whether the mutex is held (no / yes / on some paths only) and whether an Unlock has been deferred.
//   - every load or store of a guarded variable happens at a point where the mutex is held on every path;
//   - the mutex is never taken where it may already be held, neither directly nor through a (transitive) callee;
//   - no call through a function value or an interface is made while it may be held (the callee could lock again);
//   - every return leaves the mutex released (or, for a held_on_call function, held as on entry);
//   - a held_on_call function is only ever called with the mutex held.
func locksetOutcome(w *World, fo *funcOutcome) {
	name := strings.TrimPrefix(fo.Key, "lockset:")
	fo.VC = &VCResult{Key: fo.Key}
	b, err := os.ReadFile(filepath.Join(verifDir(), "spec", "footprints", "lockset_"+name+".json"))
	if err != nil {
		fo.VC.Err = err
		return
	}
	var ls locksetSpec
	if err := json.Unmarshal(b, &ls); err != nil {
		fo.VC.Err = err
		return
	}
	glob := func(q string) *ssa.Global {
		k := strings.LastIndex(q, ".")
		if sp := w.SSAPkgs[modPath+"/"+q[:k]]; sp != nil {
			g, _ := sp.Members[q[k+1:]].(*ssa.Global)
			return g
		}
		return nil
	}
	mu := glob(ls.Mutex)
	allGuards := map[*ssa.Global]bool{}
	for _, q := range ls.Guards {
		if g := glob(q); g != nil {
			allGuards[g] = true
		}
	}
	// every other package-level mutex of the same package is held to the same discipline (it guards nothing by name)
	mutexes := []*ssa.Global{mu}
	if mu != nil {
		var ns []string
		for n := range mu.Pkg.Members {
			ns = append(ns, n)
		}
		sort.Strings(ns)
		for _, n := range ns {
			if g, ok := mu.Pkg.Members[n].(*ssa.Global); ok && g != mu {
				if t := ptrElem(g.Type()); t != nil {
					if ts := types.TypeString(t, nil); ts == "sync.Mutex" || ts == "sync.RWMutex" {
						mutexes = append(mutexes, g)
					}
				}
			}
		}
	}
	heldOnCallAll := map[string]bool{}
	for _, f := range ls.HeldOnCall {
		heldOnCallAll[f] = true
	}
	var offenders []string
	seenOff := map[string]bool{}
	touched := 0
	configured := mu
	for _, mu := range mutexes {
		guards, heldOnCall := map[*ssa.Global]bool{}, map[string]bool{}
		if mu == configured {
			guards, heldOnCall = allGuards, heldOnCallAll
		}
		muName := ls.Mutex
		if mu != configured && mu != nil {
			muName = relPkg(mu.Pkg.Pkg.Path()) + "." + mu.Name()
		}
		muOp := func(ins ssa.Instruction) string { // "Lock", "Unlock", "defer Unlock" or ""
			ci, ok := ins.(ssa.CallInstruction)
			if !ok {
				return ""
			}
			cc := ci.Common()
			callee, ok := cc.Value.(*ssa.Function)
			if !ok || callee.Pkg == nil || callee.Pkg.Pkg.Path() != "sync" || len(cc.Args) == 0 || cc.Args[0] != ssa.Value(mu) {
				return ""
			}
			if _, isDefer := ins.(*ssa.Defer); isDefer {
				return "defer " + callee.Name()
			}
			return callee.Name()
		}
		// which functions take the mutex themselves or through static callees
		var all []*ssa.Function
		var collect func(fn *ssa.Function)
		collect = func(fn *ssa.Function) {
			all = append(all, fn)
			for _, a := range fn.AnonFuncs {
				collect(a)
			}
		}
		var names []string
		for k := range w.Funcs {
			names = append(names, k)
		}
		sort.Strings(names)
		for _, k := range names {
			if fn := w.Funcs[k]; fn.Parent() == nil {
				collect(fn)
			}
		}
		locksDirect := map[*ssa.Function]bool{}
		callees := map[*ssa.Function][]*ssa.Function{}
		for _, fn := range all {
			for _, blk := range fn.Blocks {
				for _, ins := range blk.Instrs {
					if op := muOp(ins); op == "Lock" || op == "RLock" {
						locksDirect[fn] = true
					}
					if ci, ok := ins.(ssa.CallInstruction); ok {
						if callee, ok := ci.Common().Value.(*ssa.Function); ok {
							callees[fn] = append(callees[fn], callee)
						}
						if mc, ok := ci.Common().Value.(*ssa.MakeClosure); ok {
							if callee, ok := mc.Fn.(*ssa.Function); ok {
								callees[fn] = append(callees[fn], callee)
							}
						}
					}
				}
			}
		}
		locksMemo := map[*ssa.Function]int{}
		var locks func(fn *ssa.Function) bool
		locks = func(fn *ssa.Function) bool {
			if v, ok := locksMemo[fn]; ok {
				return v == 1
			}
			locksMemo[fn] = 0
			r := locksDirect[fn]
			for _, c := range callees[fn] {
				if !r && locks(c) {
					r = true
				}
			}
			if r {
				locksMemo[fn] = 1
			}
			return r
		}
		const (
			hNo, hYes, hMaybe = 0, 1, 2
		)
		type st struct {
			held     int
			deferred bool
			seen     bool
		}
		join := func(a, b st) st {
			if !a.seen {
				return b
			}
			if !b.seen {
				return a
			}
			r := st{seen: true, held: a.held, deferred: a.deferred || b.deferred}
			if a.held != b.held {
				r.held = hMaybe
			}
			return r
		}
		report := func(fn *ssa.Function, ins ssa.Instruction, what string) {
			pos := ""
			if ins != nil && ins.Pos().IsValid() {
				p := w.Fset.Position(ins.Pos())
				pos = fmt.Sprintf(" (%s:%d)", filepath.Base(p.Filename), p.Line)
			}
			m := funcKey(fn) + " " + what + pos
			if !seenOff[m] {
				seenOff[m] = true
				offenders = append(offenders, m)
			}
		}
		heldName := map[int]string{hNo: "not held", hYes: "held", hMaybe: "held on some paths only"}
		for _, fn := range all {
			if len(fn.Blocks) == 0 || fn.Name() == "init" || strings.HasPrefix(fn.Name(), "init#") {
				continue
			}
			entry := st{seen: true, held: hNo}
			if heldOnCall[funcKey(fn)] {
				entry.held = hYes
			}
			in := make([]st, len(fn.Blocks))
			in[0] = entry
			touches := false
			// fixpoint; findings are reported in a last pass over the stable states
			for pass := 0; pass < 2; pass++ {
				changed := true
				for iter := 0; changed && iter < 64; iter++ {
					changed = false
					for _, blk := range fn.Blocks {
						cur := in[blk.Index]
						if !cur.seen {
							continue
						}
						for _, ins := range blk.Instrs {
							final := pass == 1
							// guarded access
							for _, op := range ins.Operands(nil) {
								if g, ok := (*op).(*ssa.Global); ok && guards[g] {
									touches = true
									if final && cur.held != hYes {
										report(fn, ins, fmt.Sprintf("touches %s where %s is %s", g.Name(), muName, heldName[cur.held]))
									}
								}
							}
							switch op := muOp(ins); op {
							case "Lock", "RLock":
								if final && cur.held != hNo {
									report(fn, ins, fmt.Sprintf("takes %s where it is already %s", muName, heldName[cur.held]))
								}
								if final && op == "RLock" {
									report(fn, ins, "takes only the shared lock")
								}
								cur.held = hYes
							case "Unlock", "RUnlock":
								if final && cur.held != hYes {
									report(fn, ins, fmt.Sprintf("releases %s where it is %s", muName, heldName[cur.held]))
								}
								cur.held = hNo
							case "defer Unlock", "defer RUnlock":
								cur.deferred = true
							case "":
								if _, ok := ins.(*ssa.RunDefers); ok && cur.deferred {
									cur.held = hNo
								}
								if ci, ok := ins.(ssa.CallInstruction); ok {
									cc := ci.Common()
									_, isGo := ins.(*ssa.Go)
									_, isDefer := ins.(*ssa.Defer)
									callee, static := cc.Value.(*ssa.Function)
									if mc, ok := cc.Value.(*ssa.MakeClosure); ok {
										callee, static = mc.Fn.(*ssa.Function)
									}
									switch {
									case isGo || isDefer:
									case static && heldOnCall[funcKey(callee)]:
										touches = true
										if final && cur.held != hYes {
											report(fn, ins, fmt.Sprintf("calls %s (documented: caller holds %s) where it is %s", funcKey(callee), muName, heldName[cur.held]))
										}
									case static:
										if final && cur.held != hNo && locks(callee) {
											report(fn, ins, fmt.Sprintf("calls %s, which takes %s, where it is already %s", funcKey(callee), muName, heldName[cur.held]))
										}
									default:
										if _, isBuiltin := cc.Value.(*ssa.Builtin); !isBuiltin && final && cur.held != hNo {
											report(fn, ins, fmt.Sprintf("calls through a function value or interface where %s is %s (the callee may take it again)", muName, heldName[cur.held]))
										}
									}
								}
								if _, ok := ins.(*ssa.Return); ok && final {
									want := hNo
									if heldOnCall[funcKey(fn)] {
										want = hYes
									}
									if cur.held != want {
										report(fn, ins, fmt.Sprintf("returns with %s %s", muName, heldName[cur.held]))
									}
								}
							}
						}
						for _, succ := range blk.Succs {
							j := join(in[succ.Index], cur)
							if j != in[succ.Index] {
								in[succ.Index] = j
								changed = true
							}
						}
					}
				}
			}
			if touches && mu == configured {
				touched++
			}
		}
	} // every mutex
	guards := allGuards
	fo.Res = map[int]OblResult{}
	addObl := func(name, descr string, ok bool) {
		i := len(fo.VC.Obls)
		fo.VC.Obls = append(fo.VC.Obls, &Obl{Name: name, Kind: "table", Offset: i, Func: fo.Key, Descr: descr})
		st := "unsat"
		if !ok {
			st = "sat"
		}
		fo.Res[i] = OblResult{Status: st, Solver: "ssa-dataflow"}
	}
	sort.Strings(offenders)
	addObl("lock-discipline", fmt.Sprintf("%v are touched only where %s is held on every path; it is never taken where it may be held, no call through a function value is made while it may be held, every return releases it; %v are entered and left with it held: offenders %v (%s)", ls.Guards, ls.Mutex, ls.HeldOnCall, offenders, ls.Why), len(offenders) == 0 && mu != nil && len(guards) == len(ls.Guards))
	addObl("scan-not-empty", fmt.Sprintf("%d functions touch the guarded variables", touched), touched > 0)
	fo.VC.Trusted = []string{"lock discipline of " + ls.Mutex + ": flow-sensitive go/ssa dataflow per function (held / not held / held on some paths, deferred Unlock); package initialisers are exempt; a panic between Lock and a non-deferred Unlock is not modelled; values reached through the guarded maps (the *Symbol entries) are covered by footprint:symbol_immutable, not by this scan"}
}
