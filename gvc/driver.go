package main

import (
	"fmt"
	"sync"
	"go/token"
	"go/types"
	"os"
	"os/exec"
	"path/filepath"
	"regexp"
	"strconv"
	"strings"
	"time"

	"golang.org/x/tools/go/ssa"
)

// VCResult is the outcome of generating the script of one function.
type VCResult struct {
	Key      string
	Script   string
	Obls     []*Obl
	Err      error
	Trusted  []string
	Inlined  []string
	Havocked []string
	Inputs   []Term // entry parameters (for models)
	Observe  []string
	rp       *replayInfo // what a replay of a counterexample needs (not serialised)
}

func (g *Gen) verifyFunction(fn *ssa.Function, c *Contract) (res *VCResult) {
	res = &VCResult{Key: funcKey(fn)}
	defer func() {
		if r := recover(); r != nil {
			switch e := r.(type) {
			case unsupported:
				res.Err = e
			case specErr:
				res.Err = e
			default:
				panic(r)
			}
		}
	}()
	g.top, g.topC = fn, c
	f := g.newFrame(fn, nil)
	f.c = c
	f.paramEntry = map[string]Term{}
	st := &State{comp: map[string]string{}, base: "0"}
	g.compDecl(nowComp, "Int")
	g.assume("true", fmt.Sprintf("(<= 0 %s)", g.now(st)))
	bind := func(v ssa.Value, name string) {
		t := v.Type()
		srt := g.d.sortOf(t)
		n := "p$" + sanitize(name)
		g.declare(n, srt)
		tm := Term{n, srt, t}
		f.vals[v] = tm
		f.paramEntry[name] = tm
		g.typeFacts("true", tm, g.now(st), true)
		res.Inputs = append(res.Inputs, tm)
	}
	for _, p := range fn.Params {
		bind(p, p.Name())
	}
	for _, p := range fn.FreeVars {
		bind(p, p.Name())
		if ptrElem(p.Type()) != nil {
			// a captured variable lives in a cell allocated by the enclosing function: never nil
			g.assume("true", fmt.Sprintf("(> %s 0)", f.vals[p].S))
		}
	}
	f.entry = st.clone()
	st0 := func(types.Type) *State { return f.entry }
	env0 := g.frameEnv(f, st, nil)
	env0.old = st
	var tc *Contract
	var tcEnv func(st *State, results []Term) *Env
	if c != nil && c.Implements != "" {
		pk := c.Key
		if i := strings.Index(pk, ".("); i >= 0 {
			pk = pk[:i]
		} else {
			pk = pk[:strings.LastIndex(strings.SplitN(pk, "$", 2)[0], ".")]
		}
		tc = g.contracts[pk+"."+c.Implements]
		if tc == nil {
			cerr("implements %s: no such contract", c.Implements)
		}
		tcEnv = func(st *State, results []Term) *Env {
			e := g.frameEnv(f, st, results)
			e.old = f.entry
			nv := map[string]Arg{}
			for k, v := range e.vars {
				nv[k] = v
			}
			// positional parameters of the function type (receiver-less)
			ps := fn.Params
			if fn.Signature.Recv() != nil {
				ps = ps[1:]
			}
			for k, n := range tc.Params {
				if k < len(ps) {
					nv[n] = e.vars[ps[k].Name()]
				}
			}
			nv["fn"] = Arg{t: Term{g.fnConst(fn), "Int", fn.Type()}}
			e.vars = nv
			return e
		}
		// the function may be called wherever the function type's contract allows a call
		var treq, freq []string
		e0 := tcEnv(st, nil)
		for _, r := range tc.Requires {
			treq = append(treq, g.clauseEnv(e0, r))
		}
		for _, r := range c.Requires {
			freq = append(freq, g.clauseEnv(env0, r))
		}
		g.obligeX("impl.pre", "post", "true", fmt.Sprintf("(=> %s %s)", and(treq...), and(freq...)), "requires of "+c.Implements+" imply the function's own requires", fn.Pos(), false)
	}
	if c != nil {
		for _, r := range c.Requires {
			g.assume("true", g.clauseEnv(env0, r))
		}
		for _, u := range c.Uses {
			rel := ""
			if p := g.pkgOfContract(c); p != nil {
				rel = relPkg(p.Path())
			}
			ax := axioms[rel+"."+u]
			if ax == nil {
				cerr("uses %s: no such axiom in package %s", u, rel)
			}
			g.assume("true", g.clauseEnv(env0, ax))
			g.trusted["axiom "+u+" (defining equation of a spec function, "+ax.Line+")"] = true
		}
	}
	if c != nil && !c.ModAll && !c.Assumed {
		g.setupFrame(f, c, env0)
	}
	if c != nil && c.ModAll && len(c.Keeps) > 0 && !c.Assumed {
		// "modifies *" except the kept components: writes to those are only allowed at fresh objects
		g.frameOn = true
		g.frameOnlyKept = map[string]bool{}
		for _, k := range g.keptComps(env0, c) {
			g.frameOnlyKept[k] = true
		}
		g.frameAllowed = map[string][]string{}
		g.frameNow0 = g.now(f.entry)
		g.topEntry = f.entry
	}
	g.regionTerms = map[string]string{}
	for _, kf := range g.regions {
		e, err := parseContractExpr(kf.Region)
		if err != nil {
			cerr("known finding region %q: %v", kf.Region, err)
		}
		t := env0.tr(e)
		if prev, ok := g.regionTerms[kf.Obl]; ok {
			g.regionTerms[kf.Obl] = or(prev, t.S)
		} else {
			g.regionTerms[kf.Obl] = t.S
		}
	}
	// observations for counterexamples: scalar fields of pointer-to-struct parameters at entry
	for _, in := range res.Inputs {
		if st := ptrElem(in.T); st != nil && isStruct(st) {
			u := types.Unalias(st).Underlying().(*types.Struct)
			for k := 0; k < u.NumFields(); k++ {
				switch g.d.sortOf(u.Field(k).Type()) {
				case "Int", "Bool", "String", "F64", "Slice", "Iface":
					res.Observe = append(res.Observe, g.read(st0(st), g.fieldLoc(in.S, st, k)))
				}
			}
		}
	}
	// vacuity canary: the preconditions and encoding assumptions must be satisfiable
	g.obligeX("canary.pre", "canary", "true", "false", "requires are satisfiable (must NOT be provable)", fn.Pos(), false)
	g.stack = []*ssa.Function{fn}
	g.encodeFrame(f, "true", st)
	// postconditions, aggregated over all normal exits
	if c != nil {
		for _, e := range c.Ensures {
			var parts []string
			for _, x := range f.exits {
				env := g.frameEnv(f, x.st, x.results)
				parts = append(parts, fmt.Sprintf("(=> %s %s)", x.en, g.clauseEnv(env, e)))
			}
			g.oblige(fmt.Sprintf("post#%d", e.Idx), "post", "true", and(parts...), e.Text, fn.Pos())
		}
		for _, e := range c.Recovers {
			var parts []string
			for _, x := range f.exits {
				if !x.recovered {
					continue
				}
				env := g.frameEnv(f, x.st, x.results)
				parts = append(parts, fmt.Sprintf("(=> %s %s)", x.en, g.clauseEnv(env, e)))
			}
			g.oblige(fmt.Sprintf("recovers#%d", e.Idx), "post", "true", and(parts...), "after recovering from a panic: "+e.Text, fn.Pos())
		}
		if c.NoPanic {
			var ens []string
			for _, p := range f.panics {
				ens = append(ens, p.en)
			}
			g.oblige("nopanic", "nopanic", "true", not(or(ens...)), "no explicit panic / no callee panic reaches the caller", fn.Pos())
		}
		for _, pc := range c.Preserves {
			var parts []string
			all := append(append([]Exit{}, f.exits...), f.panics...)
			for _, x := range all {
				env := g.frameEnv(f, x.st, nil)
				parts = append(parts, fmt.Sprintf("(=> %s %s)", x.en, g.preservedFormula(env, pc, f.entry, x.st)))
			}
			g.oblige(fmt.Sprintf("preserve#%d", pc.Idx), "post", "true", and(parts...), "preserves "+pc.Text, fn.Pos())
		}
		if tc != nil {
			all := append(append([]Exit{}, f.exits...), f.panics...)
			for _, pc := range tc.Preserves {
				var parts []string
				for _, x := range all {
					parts = append(parts, fmt.Sprintf("(=> %s %s)", x.en, g.preservedFormula(tcEnv(x.st, nil), pc, f.entry, x.st)))
				}
				g.oblige(fmt.Sprintf("impl.preserve#%d", pc.Idx), "post", "true", and(parts...), c.Implements+" preserves "+pc.Text, fn.Pos())
			}
			for _, e := range tc.Ensures {
				var parts []string
				for _, x := range f.exits {
					parts = append(parts, fmt.Sprintf("(=> %s %s)", x.en, g.clauseEnv(tcEnv(x.st, x.results), e)))
				}
				g.oblige(fmt.Sprintf("impl.post#%d", e.Idx), "post", "true", and(parts...), c.Implements+" ensures "+e.Text, fn.Pos())
			}
			if tc.NoPanic {
				var ens []string
				for _, p := range f.panics {
					ens = append(ens, p.en)
				}
				g.oblige("impl.nopanic", "nopanic", "true", not(or(ens...)), c.Implements+" never panics", fn.Pos())
			}
		}
		for _, e := range c.Exsures {
			var parts []string
			for _, x := range f.panics {
				env := g.frameEnv(f, x.st, []Term{{x.pval, "Iface", nil}})
				parts = append(parts, fmt.Sprintf("(=> %s %s)", x.en, g.clauseEnv(env, e)))
			}
			g.oblige(fmt.Sprintf("exsure#%d", e.Idx), "exsure", "true", and(parts...), e.Text, fn.Pos())
		}
	}
	// reachability canary: some exit must be reachable
	var ens []string
	for _, x := range f.exits {
		ens = append(ens, x.en)
	}
	for _, x := range f.panics {
		ens = append(ens, x.en)
	}
	g.obligeX("canary.exit", "canary", "true", not(or(ens...)), "an exit is reachable (must NOT be provable)", fn.Pos(), false)
	res.Obls = g.obls
	res.rp = &replayInfo{g: g, entry: f.entry, exits: f.exits, panics: f.panics, fn: fn}
	for _, p := range fn.Params {
		res.rp.params = append(res.rp.params, f.paramEntry[p.Name()])
	}
	res.Script = g.script()
	for k := range g.trusted {
		res.Trusted = append(res.Trusted, k)
	}
	for k := range g.inlined {
		res.Inlined = append(res.Inlined, k)
	}
	for k := range g.havocked {
		res.Havocked = append(res.Havocked, k)
	}
	return res
}

func (g *Gen) script() string {
	var b strings.Builder
	b.WriteString("(set-option :produce-models true)\n(set-logic ALL)\n")
	b.WriteString(prelude)
	// struct datatypes and tags first, then spec text, then the rest
	spec := g.specs.text
	body := g.body.String()
	for _, o := range g.specs.opt {
		used := false
		for _, sym := range o.syms {
			if strings.Contains(body, "("+sym+" ") {
				used = true
			}
		}
		if used {
			spec += o.text
			if strings.Contains(o.text, "utf8_width") {
				g.d.add("fn:utf8", "(declare-fun utf8_rune (String Int) Int)\n(declare-fun utf8_width (String Int) Int)")
			}
		}
	}
	// make sure symbols referenced by the spec text are declared
	g.demandSpecSymbols(spec)
	b.WriteString(g.d.emit())
	b.WriteString(spec)
	b.WriteString(body)
	return b.String()
}

var symRe = regexp.MustCompile(`(tag|ub\$S|bx\$S|S|mk|fn|f)\$[A-Za-z0-9_.$]+`)

// demandSpecSymbols declares type-dependent symbols the spec text refers to (tags, boxes, struct sorts).
func (g *Gen) demandSpecSymbols(spec string) {
	seen := map[string]bool{}
	for _, srt := range []string{"Int", "F64", "Bool", "String", "Slice"} {
		if strings.Contains(spec, "ub$"+srt) || strings.Contains(spec, "bx$"+srt) {
			g.d.boxOfSort(srt)
		}
	}
	for _, m := range symRe.FindAllString(spec, -1) {
		if seen[m] {
			continue
		}
		seen[m] = true
		i := strings.Index(m, "$")
		kind, name := m[:i], m[i+1:]
		if kind == "ub" || kind == "bx" {
			kind, name = "box", name[2:]
		}
		if kind == "f" {
			name = name[:strings.LastIndex(name, "$")]
		}
		if kind == "fn" {
			for k, fn := range g.w.Funcs {
				if sanitize(k) == name {
					g.fnConst(fn)
				}
			}
			continue
		}
		t := g.w.typeByName(name)
		if t == nil {
			continue
		}
		switch kind {
		case "tag":
			g.d.tagOf(t)
		case "box":
			g.d.boxFns(t)
		case "S", "mk", "f":
			g.d.sortOf(t)
		}
	}
}

func (w *World) typeByName(name string) types.Type {
	if w.tbn == nil {
		w.tbn = map[string]types.Type{}
		for _, t := range w.concreteTypes() {
			w.tbn[typeName(t)] = t
		}
		for _, b := range types.Typ {
			w.tbn[typeName(b)] = b
		}
	}
	return w.tbn[name]
}

// ---- solving ----

type Solver struct {
	Name string
	Cmd  []string
}

func solvers(timeoutMs int) []Solver {
	return []Solver{
		{"z3-new", []string{"z3-new", fmt.Sprintf("-t:%d", timeoutMs), "-smt2"}},
		{"cvc5", []string{"cvc5", "--incremental", "--strings-exp", fmt.Sprintf("--tlimit-per=%d", timeoutMs), "--lang=smt2"}},
		{"z3", []string{"z3", fmt.Sprintf("-t:%d", timeoutMs), "-smt2"}},
	}
}

type OblResult struct {
	Status string // unsat, sat, unknown, timeout, error
	Solver string
	TimeS  float64
	Cross  string // thorough tier: answers of the other solvers on the same (IEEE-precise) script, e.g. "cvc5:unsat z3:unknown"
}

// crossCheck (thorough tier): every obligation that one solver discharges is also given to the other two; an answer
// `sat` from one of them is a disagreement between solvers and is reported (it never happened so far).
var crossCheck = false

var oblRe = regexp.MustCompile(`^OBL (\d+)$`)

func runScriptRaw(s Solver, path string, wall time.Duration) (string, float64, string) {
	t0 := time.Now()
	cmd := exec.Command(s.Cmd[0], append(s.Cmd[1:], path)...)
	done := make(chan struct{})
	var out []byte
	go func() {
		out, _ = cmd.CombinedOutput()
		close(done)
	}()
	select {
	case <-done:
	case <-time.After(wall):
		if cmd.Process != nil {
			cmd.Process.Kill()
		}
		<-done
	}
	return string(out), time.Since(t0).Seconds(), ""
}

// runScript runs a solver over a script file and returns per-obligation answers.
func runScript(s Solver, path string, n int, wall time.Duration) (map[int]string, float64, string) {
	t0 := time.Now()
	cmd := exec.Command(s.Cmd[0], append(s.Cmd[1:], path)...)
	done := make(chan struct{})
	var out []byte
	go func() {
		out, _ = cmd.CombinedOutput()
		close(done)
	}()
	select {
	case <-done:
	case <-time.After(wall):
		if cmd.Process != nil {
			cmd.Process.Kill()
		}
		<-done
	}
	res := map[int]string{}
	cur := -1
	var errs []string
	for _, ln := range strings.Split(string(out), "\n") {
		ln = strings.TrimSpace(strings.Trim(ln, "\""))
		if m := oblRe.FindStringSubmatch(ln); m != nil {
			cur, _ = strconv.Atoi(m[1])
			continue
		}
		switch ln {
		case "unsat", "sat", "unknown", "timeout":
			if cur >= 0 {
				res[cur] = ln
				cur = -1
			}
		default:
			if strings.Contains(ln, "error") {
				errs = append(errs, ln)
			}
		}
	}
	return res, time.Since(t0).Seconds(), strings.Join(errs, "\n")
}

// oblScript builds a stand-alone script for one obligation: everything before it, with earlier
// obligations kept only as the assumptions that follow them.
func oblScript(vc *VCResult, o *Obl) string {
	marker := fmt.Sprintf(";;ENDOBL %d\n", o.Offset)
	i := strings.Index(vc.Script, marker)
	if i < 0 {
		return ""
	}
	pre := vc.Script[:i]
	start := strings.LastIndex(pre, fmt.Sprintf(";;OBL %d ", o.Offset))
	head, own := pre[:start], pre[start:]
	head = oblBlockRe.ReplaceAllString(head, "")
	return head + own
}

var oblBlockRe = regexp.MustCompile(`(?s);;OBL \d+ [^\n]*\n\(push 1\)\n.*?\(pop 1\)\n;;ENDOBL \d+\n`)

func solveOne(script, path string, timeoutMs int, wantSat bool) OblResult {
	wall := time.Duration(timeoutMs)*time.Millisecond + 5*time.Second
	usesFP := strings.Contains(script, "(fadd ") || strings.Contains(script, "(fsub ") || strings.Contains(script, "(fmul ") || strings.Contains(script, "(fdiv ")
	if usesFP && !wantSat {
		// first attempt: floating-point + - * / abstracted to uninterpreted functions
		os.WriteFile(path, []byte(strings.Replace(script, ";;FPDEFS\n", fpAbstract, 1)), 0o644)
		t := timeoutMs
		if t > 5000 {
			t = 5000
		}
		s := solvers(t)[0]
		out, secs, _ := runScriptRaw(s, path, time.Duration(t)*time.Millisecond+5*time.Second)
		for _, ln := range strings.Split(out, "\n") {
			if strings.TrimSpace(ln) == "unsat" {
				if !crossCheck {
					return OblResult{Status: "unsat", Solver: s.Name + "(fp-abstract)", TimeS: secs}
				}
			}
		}
	}
	os.WriteFile(path, []byte(strings.Replace(script, ";;FPDEFS\n", fpPrecise, 1)), 0o644)
	var last OblResult
	for _, s := range solvers(timeoutMs) {
		out, secs, _ := runScriptRaw(s, path, wall)
		st := "error"
		for _, ln := range strings.Split(out, "\n") {
			ln = strings.TrimSpace(ln)
			if ln == "unsat" || ln == "sat" || ln == "unknown" || ln == "timeout" {
				st = ln
				break
			}
		}
		r := OblResult{Status: st, Solver: s.Name, TimeS: secs}
		if st == "unsat" && crossCheck && !wantSat {
			var cs []string
			for _, s2 := range solvers(timeoutMs) {
				if s2.Name == s.Name {
					continue
				}
				out2, _, _ := runScriptRaw(s2, path, wall)
				st2 := "error"
				for _, ln := range strings.Split(out2, "\n") {
					ln = strings.TrimSpace(ln)
					if ln == "unsat" || ln == "sat" || ln == "unknown" || ln == "timeout" {
						st2 = ln
						break
					}
				}
				cs = append(cs, s2.Name+":"+st2)
			}
			r.Cross = strings.Join(cs, " ")
		}
		if st == "unsat" || st == "sat" {
			return r
		}
		if wantSat && st == "unknown" {
			return r // a canary only has to be not provable
		}
		if last.Status == "" || last.Status == "error" {
			last = r
		}
	}
	return last
}

// solveVC discharges the selected obligations of one function, each as its own solver run.
func solveVC(vc *VCResult, dir string, timeoutMs int, all bool) (map[int]OblResult, string) {
	return solveSelected(vc, dir, timeoutMs, nil)
}

func solveSelected(vc *VCResult, dir string, timeoutMs int, sel func(*Obl) bool) (map[int]OblResult, string) {
	out := map[int]OblResult{}
	var mu sync.Mutex
	var wg sync.WaitGroup
	for _, o := range vc.Obls {
		if sel != nil && !sel(o) {
			continue
		}
		wg.Add(1)
		go func(o *Obl) {
			defer wg.Done()
			solveSem <- struct{}{}
			defer func() { <-solveSem }()
			path := filepath.Join(dir, fmt.Sprintf("%s.o%d.smt2", sanitize(vc.Key), o.Offset))
			r := solveOne(oblScript(vc, o), path, timeoutMs, o.Kind == "canary" || o.Kind == "kf.canary")
			if os.Getenv("GVC_KEEP") == "" {
				os.Remove(path)
			}
			mu.Lock()
			out[o.Offset] = r
			mu.Unlock()
		}(o)
	}
	wg.Wait()
	return out, ""
}

var solveSem = make(chan struct{}, 16)

func posString(fset *token.FileSet, p token.Pos) string {
	if !p.IsValid() {
		return ""
	}
	return fset.Position(p).String()
}

// setupFrame records which locations the function may modify (its modifies clauses, evaluated at entry).
// Every heap write and every callee frame is then checked against it where it happens.
func (g *Gen) setupFrame(f *Frame, c *Contract, env0 *Env) {
	g.frameOn = true
	g.frameAllowed = map[string][]string{}
	for _, m := range c.Modifies {
		for _, l := range g.modLocs(env0, m) {
			if l.whole != "" {
				if l.exceptRef == "" {
					g.frameAllowed[l.whole] = append(g.frameAllowed[l.whole], "*")
				} else {
					g.frameAllowed[l.whole] = append(g.frameAllowed[l.whole], l.exceptRef)
				}
				continue
			}
			g.frameAllowed[l.loc.comp] = append(g.frameAllowed[l.loc.comp], l.loc.ref)
		}
	}
	g.frameNow0 = g.now(f.entry)
	g.topEntry = f.entry
}

// frameWrite: obligation that a write to comp at ref is within the frame.
func (g *Gen) frameWrite(comp, ref string) {
	if !g.frameOn || g.cur == nil || comp == nowComp || comp == "IT" {
		return
	}
	if g.frameOnlyKept != nil && !g.frameOnlyKept[comp] {
		return
	}
	conds := []string{fmt.Sprintf("(> %s %s)", ref, g.frameNow0)}
	if strings.HasPrefix(comp, "E$") {
		// the nil slice has no elements: nothing is written through it
		conds = append(conds, fmt.Sprintf("(= %s 0)", ref))
	}
	for _, a := range g.frameAllowed[comp] {
		if a == "*" {
			return
		}
		conds = append(conds, fmt.Sprintf("(= %s %s)", ref, a))
	}
	g.frameN++
	// a frame obligation is not a path condition: it is NOT assumed afterwards (an undischarged one must not make
	// the rest of the function vacuous)
	g.obligeX(fmt.Sprintf("frame#%d:%s", g.frameN, comp), "frame", g.cur.en, or(conds...),
		"write to "+comp+" only at locations listed under modifies or at objects allocated by this call", token.NoPos, false)
}

func (g *Gen) frameHavocAll() {
	if !g.frameOn || g.cur == nil {
		return
	}
	if g.frameOnlyKept != nil {
		// everything may change except the kept components: the callee must keep them too
		ok := true
		for k := range g.frameOnlyKept {
			if !g.calleeKeeps[k] {
				ok = false
			}
		}
		if ok {
			return
		}
	}
	g.frameN++
	g.obligeX(fmt.Sprintf("frame#%d:havoc", g.frameN), "frame", g.cur.en, "false", "a call with unknown effects is reachable: the frame cannot be established", token.NoPos, false)
}
