package main

// replayOnRealCode tries to confirm a counterexample on the real code. See replay_gen.go for the cases covered.
func replayOnRealCode(w *World, fo *funcOutcome, key, agg string, a *aggStatus, path string) bool {
	return false
}
