package main

// Replay of solver counterexamples on the real code.
//
// For a failed obligation whose solver answer is `sat`, the model of the function's inputs (parameters and the part
// of the entry heap reachable from them) is turned into Go values, an in-package test that calls the real function
// with them is injected with `go test -overlay` (nothing is written into /repo), and what the real code does is
// compared with what the model says the code does:
//   - post-condition obligations: the call returns normally and its observable results (scalars, nil-ness of
//     pointers / interfaces / errors, lengths of slices) equal those of the model's active exit - the solver has
//     established that the contract clause is false for exactly these inputs and results;
//   - safety obligations (index, nil dereference, type assertion ...): the call panics.
// Anything that cannot be rebuilt faithfully (closures, channels, non-empty maps, function values, unexported fields
// of other packages, dynamic types the model invents) makes the replay give up: the violation is then reported with
// no-failing-input-found. A replay never turns a passing obligation into a violation; it only confirms one.

import (
	"bufio"
	"encoding/json"
	"fmt"
	"go/types"
	"io"
	"math"
	"os"
	"os/exec"
	"path/filepath"
	"sort"
	"strconv"
	"strings"
	"time"

	"golang.org/x/tools/go/ssa"
)

type replayInfo struct {
	g      *Gen
	entry  *State
	exits  []Exit
	panics []Exit
	fn     *ssa.Function
	params []Term
}

// ---- s-expressions ----

type sx struct {
	atom string
	list []sx
	str  bool
}

func (s sx) isAtom() bool { return s.list == nil }

func parseSx(src string) (sx, error) {
	p := &sxParser{s: src}
	v, err := p.parse()
	return v, err
}

type sxParser struct {
	s string
	i int
}

func (p *sxParser) ws() {
	for p.i < len(p.s) && (p.s[p.i] == ' ' || p.s[p.i] == '\n' || p.s[p.i] == '\t' || p.s[p.i] == '\r') {
		p.i++
	}
}

func (p *sxParser) parse() (sx, error) {
	p.ws()
	if p.i >= len(p.s) {
		return sx{}, fmt.Errorf("unexpected end")
	}
	switch p.s[p.i] {
	case '(':
		p.i++
		out := sx{list: []sx{}}
		for {
			p.ws()
			if p.i >= len(p.s) {
				return sx{}, fmt.Errorf("unbalanced")
			}
			if p.s[p.i] == ')' {
				p.i++
				return out, nil
			}
			v, err := p.parse()
			if err != nil {
				return sx{}, err
			}
			out.list = append(out.list, v)
		}
	case '"':
		j := p.i + 1
		var b strings.Builder
		for j < len(p.s) {
			if p.s[j] == '"' {
				if j+1 < len(p.s) && p.s[j+1] == '"' {
					b.WriteByte('"')
					j += 2
					continue
				}
				break
			}
			b.WriteByte(p.s[j])
			j++
		}
		p.i = j + 1
		return sx{atom: b.String(), str: true}, nil
	default:
		j := p.i
		for j < len(p.s) && !strings.ContainsRune(" \n\t\r()", rune(p.s[j])) {
			j++
		}
		a := p.s[p.i:j]
		p.i = j
		return sx{atom: a}, nil
	}
}

// ---- interactive solver session ----

type smtSession struct {
	cmd *exec.Cmd
	in  io.WriteCloser
	rd  *bufio.Reader
}

// startSession tries the solvers in turn until one of them reproduces the model.
func startSession(script string, timeoutMs int) (*smtSession, string, error) {
	var last string
	var lastErr error
	for _, argv := range [][]string{
		{"z3-new", "-in", "-smt2", fmt.Sprintf("-t:%d", timeoutMs)},
		{"z3", "-in", "-smt2", fmt.Sprintf("-t:%d", timeoutMs)},
		{"cvc5", "--incremental", "--strings-exp", "--produce-models", fmt.Sprintf("--tlimit-per=%d", timeoutMs), "--lang=smt2"},
	} {
		s, st, err := startSessionWith(argv, script, timeoutMs)
		if err == nil && st == "sat" {
			return s, st, nil
		}
		if s != nil {
			s.close()
		}
		last, lastErr = st, err
	}
	return nil, last, lastErr
}

func startSessionWith(argv []string, script string, timeoutMs int) (*smtSession, string, error) {
	cmd := exec.Command(argv[0], argv[1:]...)
	in, err := cmd.StdinPipe()
	if err != nil {
		return nil, "", err
	}
	out, err := cmd.StdoutPipe()
	if err != nil {
		return nil, "", err
	}
	cmd.Stderr = nil
	if err := cmd.Start(); err != nil {
		return nil, "", err
	}
	s := &smtSession{cmd: cmd, in: in, rd: bufio.NewReader(out)}
	go func() {
		time.Sleep(time.Duration(timeoutMs)*time.Millisecond*4 + 60*time.Second)
		cmd.Process.Kill()
	}()
	io.WriteString(in, script)
	io.WriteString(in, "\n(echo \"GVC-READY\")\n")
	status := ""
	for {
		ln, err := s.rd.ReadString('\n')
		if err != nil {
			s.close()
			return nil, "", fmt.Errorf("solver ended: %v", err)
		}
		t := strings.TrimSpace(ln)
		if t == "sat" || t == "unsat" || t == "unknown" || t == "timeout" {
			status = t
		}
		if strings.Contains(t, "GVC-READY") {
			break
		}
	}
	return s, status, nil
}

func (s *smtSession) close() {
	s.in.Close()
	s.cmd.Process.Kill()
	s.cmd.Wait()
}

// value asks for the model value of a term.
func (s *smtSession) value(term string) (sx, error) {
	io.WriteString(s.in, "(get-value ("+term+"))\n")
	var b strings.Builder
	depth, started, inStr := 0, false, false
	for {
		c, err := s.rd.ReadByte()
		if err != nil {
			return sx{}, err
		}
		b.WriteByte(c)
		if inStr {
			if c == '"' {
				inStr = false
			}
			continue
		}
		switch c {
		case '"':
			inStr = true
		case '(':
			depth++
			started = true
		case ')':
			depth--
		}
		if started && depth == 0 {
			break
		}
	}
	v, err := parseSx(b.String())
	if err != nil {
		return sx{}, err
	}
	if len(v.list) >= 1 && v.list[0].isAtom() && v.list[0].atom == "error" {
		return sx{}, fmt.Errorf("solver: %s", b.String())
	}
	if len(v.list) != 1 || len(v.list[0].list) != 2 {
		return sx{}, fmt.Errorf("unexpected get-value answer %s", b.String())
	}
	return v.list[0].list[1], nil
}

// ---- model values -> Go ----

type rbuilder struct {
	s       *smtSession
	g       *Gen
	entry   *State
	script  string
	pkg     *types.Package
	stmts   []string
	nvar    int
	ptrs    map[string]string
	imports map[string]string
	why     string
	budget  int
	shorter []string // constraints to add for another attempt
	choices []string // dynamic types the model chose for interface values (to ask for a different model)
}

func (b *rbuilder) fail(f string, a ...interface{}) string {
	if b.why == "" {
		b.why = fmt.Sprintf(f, a...)
	}
	return "nil"
}

func (b *rbuilder) qual(p *types.Package) string {
	if p == b.pkg {
		return ""
	}
	if a, ok := b.imports[p.Path()]; ok {
		return a
	}
	a := fmt.Sprintf("rp%d", len(b.imports))
	b.imports[p.Path()] = a
	return a
}

func (b *rbuilder) typeStr(t types.Type) string { return types.TypeString(t, b.qual) }

func sxInt(v sx) (string, bool) {
	if v.isAtom() {
		if _, err := strconv.ParseInt(v.atom, 10, 64); err == nil {
			return v.atom, true
		}
		if _, err := strconv.ParseUint(v.atom, 10, 64); err == nil {
			return v.atom, true
		}
		return "", false
	}
	if len(v.list) == 2 && v.list[0].atom == "-" {
		if n, ok := sxInt(v.list[1]); ok {
			return "-" + n, true
		}
	}
	return "", false
}

func sxF64(v sx) (uint64, bool) {
	if len(v.list) == 4 && v.list[0].atom == "fp" {
		bits := ""
		for _, p := range v.list[1:] {
			a := p.atom
			switch {
			case strings.HasPrefix(a, "#b"):
				bits += a[2:]
			case strings.HasPrefix(a, "#x"):
				for _, h := range a[2:] {
					n, _ := strconv.ParseUint(string(h), 16, 8)
					bits += fmt.Sprintf("%04b", n)
				}
			default:
				return 0, false
			}
		}
		if len(bits) != 64 {
			return 0, false
		}
		n, err := strconv.ParseUint(bits, 2, 64)
		return n, err == nil
	}
	if len(v.list) == 4 && v.list[0].atom == "_" {
		switch v.list[1].atom {
		case "+zero":
			return 0, true
		case "-zero":
			return 1 << 63, true
		case "+oo":
			return math.Float64bits(math.Inf(1)), true
		case "-oo":
			return math.Float64bits(math.Inf(-1)), true
		case "NaN":
			return math.Float64bits(math.NaN()), true
		}
	}
	return 0, false
}

// smtStringBytes decodes an SMT-LIB string literal whose characters stand for bytes.
func smtStringBytes(s string) ([]byte, bool) {
	var out []byte
	for i := 0; i < len(s); {
		if strings.HasPrefix(s[i:], "\\u{") {
			j := strings.IndexByte(s[i:], '}')
			if j < 0 {
				return nil, false
			}
			n, err := strconv.ParseUint(s[i+3:i+j], 16, 32)
			if err != nil || n > 255 {
				return nil, false
			}
			out = append(out, byte(n))
			i += j + 1
			continue
		}
		if strings.HasPrefix(s[i:], "\\x") && i+4 <= len(s) {
			n, err := strconv.ParseUint(s[i+2:i+4], 16, 8)
			if err == nil {
				out = append(out, byte(n))
				i += 4
				continue
			}
		}
		if s[i] >= 0x80 {
			return nil, false
		}
		out = append(out, s[i])
		i++
	}
	return out, true
}

func goBytesLit(bs []byte) string {
	var b strings.Builder
	b.WriteByte('"')
	for _, c := range bs {
		switch {
		case c == '"' || c == '\\':
			b.WriteByte('\\')
			b.WriteByte(c)
		case c >= 0x20 && c < 0x7f:
			b.WriteByte(c)
		default:
			fmt.Fprintf(&b, "\\x%02x", c)
		}
	}
	b.WriteByte('"')
	return b.String()
}

func (b *rbuilder) declared(name string) bool {
	return strings.Contains(b.script, "(declare-fun "+name+" ") || strings.Contains(b.script, "(declare-const "+name+" ")
}

func (b *rbuilder) zeroOf(t types.Type) string {
	switch u := types.Unalias(t).Underlying().(type) {
	case *types.Basic:
		switch {
		case u.Info()&types.IsBoolean != 0:
			return b.typeStr(t) + "(false)"
		case u.Info()&types.IsString != 0:
			return b.typeStr(t) + `("")`
		case u.Kind() == types.UnsafePointer:
			return "nil"
		default:
			return b.typeStr(t) + "(0)"
		}
	case *types.Struct:
		return b.typeStr(t) + "{}"
	}
	return "nil"
}

// val builds a Go expression for the model value of the SMT term `term` of Go type t. Terms stay symbolic (in terms of
// the parameters and the entry heap) so that extra constraints (shorter slices) can be added and the model recomputed.
func (b *rbuilder) val(t types.Type, term string, depth int) string {
	if b.why != "" {
		return "nil"
	}
	v, err := b.s.value(term)
	if err != nil {
		return b.fail("model query failed: %v", err)
	}
	b.budget--
	if depth > 8 || b.budget < 0 {
		return b.fail("model too large to rebuild")
	}
	t = types.Unalias(t)
	if n, ok := t.(*types.Named); ok && n.Obj().Pkg() != nil && n.Obj().Pkg() != b.pkg && !n.Obj().Exported() {
		return b.fail("unexported type %s of another package", n)
	}
	switch u := t.Underlying().(type) {
	case *types.Basic:
		switch {
		case u.Info()&types.IsBoolean != 0:
			if v.atom == "true" || v.atom == "false" {
				return b.typeStr(t) + "(" + v.atom + ")"
			}
		case u.Info()&types.IsInteger != 0:
			if n, ok := sxInt(v); ok {
				lo, hi, _ := intRange(t)
				_ = lo
				_ = hi
				return b.typeStr(t) + "(" + n + ")"
			}
		case u.Kind() == types.Float64:
			if bits, ok := sxF64(v); ok {
				b.imports["math"] = "math"
				return fmt.Sprintf("%s(math.Float64frombits(0x%016x))", b.typeStr(t), bits)
			}
		case u.Info()&types.IsString != 0:
			if v.str {
				if bs, ok := smtStringBytes(v.atom); ok {
					return b.typeStr(t) + "(" + goBytesLit(bs) + ")"
				}
				return b.fail("string value with code points above 255")
			}
		}
		return b.fail("cannot read %s value from the model", t)
	case *types.Struct:
		// (mk$T f1 ... fn) or the atom mk$T
		var fs []sx
		if !v.isAtom() {
			fs = v.list[1:]
		}
		if len(fs) != u.NumFields() {
			return b.fail("struct value of %s has unexpected shape: %s", t, sxString(v))
		}
		var parts []string
		for k := 0; k < u.NumFields(); k++ {
			f := u.Field(k)
			if !f.Exported() && f.Pkg() != b.pkg {
				return b.fail("unexported field %s.%s of another package", t, f.Name())
			}
			parts = append(parts, f.Name()+": "+b.val(f.Type(), fmt.Sprintf("(%s %s)", fieldAcc(t, k), term), depth+1))
		}
		return b.typeStr(t) + "{" + strings.Join(parts, ", ") + "}"
	case *types.Pointer:
		ref, ok := sxInt(v)
		if !ok {
			return b.fail("pointer value not an integer")
		}
		if ref == "0" {
			return "(" + b.typeStr(t) + ")(nil)"
		}
		key := b.typeStr(t) + "|" + ref
		if name, ok := b.ptrs[key]; ok {
			return name
		}
		b.nvar++
		name := fmt.Sprintf("p%d", b.nvar)
		b.ptrs[key] = name
		el := u.Elem()
		b.stmts = append(b.stmts, fmt.Sprintf("%s := new(%s)", name, b.typeStr(el)))
		if st, isSt := types.Unalias(el).Underlying().(*types.Struct); isSt {
			for k := 0; k < st.NumFields(); k++ {
				f := st.Field(k)
				comp, _, _ := b.g.fieldComp(el, k)
				if !b.declared(comp + "@0") {
					continue // the function never looks at this field: its zero value will do
				}
				if !f.Exported() && f.Pkg() != b.pkg {
					return b.fail("unexported field %s.%s of another package", el, f.Name())
				}
				b.stmts = append(b.stmts, fmt.Sprintf("%s.%s = %s", name, f.Name(), b.val(f.Type(), fmt.Sprintf("(select %s@0 %s)", comp, term), depth+1)))
			}
			return name
		}
		comp, _ := b.g.cellComp(el)
		if b.declared(comp + "@0") {
			b.stmts = append(b.stmts, fmt.Sprintf("*%s = %s", name, b.val(el, fmt.Sprintf("(select %s@0 %s)", comp, term), depth+1)))
		}
		return name
	case *types.Slice:
		if len(v.list) != 5 {
			return b.fail("slice value has unexpected shape")
		}
		ref, _ := sxInt(v.list[1])
		off, _ := sxInt(v.list[2])
		ln, ok := sxInt(v.list[3])
		if !ok {
			return b.fail("slice length not an integer")
		}
		n, _ := strconv.Atoi(ln)
		if ref == "0" {
			return "(" + b.typeStr(t) + ")(nil)"
		}
		if ec, _ := b.g.elemComp(u.Elem()); n >= 0 && n <= 1000000 && !b.declared(ec+"@0") {
			// the function never reads an element of this element type: only the length matters
			return fmt.Sprintf("make(%s, %d)", b.typeStr(t), n)
		}
		if n < 0 || n > 12 {
			// ask for a model with a shorter slice and start again
			b.shorter = append(b.shorter, fmt.Sprintf("(assert (<= (s_len %s) 4))", term))
			return b.fail("slice of length %d", n)
		}
		_ = off
		comp, _ := b.g.elemComp(u.Elem())
		var parts []string
		for k := 0; k < n; k++ {
			if !b.declared(comp + "@0") {
				parts = append(parts, b.zeroOf(u.Elem()))
				continue
			}
			parts = append(parts, b.val(u.Elem(), fmt.Sprintf("(select (select %s@0 (s_ref %s)) (+ (s_off %s) %d))", comp, term, term, k), depth+1))
		}
		return b.typeStr(t) + "{" + strings.Join(parts, ", ") + "}"
	case *types.Interface:
		if len(v.list) != 3 {
			return b.fail("interface value has unexpected shape")
		}
		tag, _ := sxInt(v.list[1])
		if tag == "0" {
			return "(" + b.typeStr(t) + ")(nil)"
		}
		var dyn types.Type
		for name, n := range b.g.d.tags {
			if strconv.Itoa(n) == tag {
				dyn = b.g.d.tagTypes[name]
			}
		}
		if dyn == nil {
			// ask for a model in which this interface value is nil or has a dynamic type the module defines
			alts := []string{fmt.Sprintf("(= %s %s)", term, nilIface)}
			for name, ty := range b.g.d.tagTypes {
				if types.AssignableTo(ty, t) {
					alts = append(alts, fmt.Sprintf("(= (i_tag %s) %s)", term, name))
				}
			}
			sort.Strings(alts)
			b.shorter = append(b.shorter, "(assert (or "+strings.Join(alts, " ")+"))")
			return b.fail("the model uses a dynamic type the module does not define (tag %s)", tag)
		}
		for name, n := range b.g.d.tags {
			if strconv.Itoa(n) == tag {
				b.choices = append(b.choices, fmt.Sprintf("(= (i_tag %s) %s)", term, name))
			}
		}
		// the payload as the code reads it: the unboxing accessor of the dynamic type's sort applied to the box
		// (the model may use another box constructor, on which that accessor is still a total function)
		_, unbox := b.g.d.boxOfSort(b.g.d.sortOf(dyn))
		return "(" + b.typeStr(t) + ")(" + b.val(dyn, fmt.Sprintf("(%s (i_box %s))", unbox, term), depth+1) + ")"
	case *types.Map:
		ref, _ := sxInt(v)
		if ref == "0" {
			return "(" + b.typeStr(t) + ")(nil)"
		}
		_, _, ln, _, _ := b.g.mapComps(u)
		if b.declared(ln + "@0") {
			lv, err := b.s.value(fmt.Sprintf("(select %s@0 %s)", ln, term))
			if n, ok := sxInt(lv); err == nil && ok && n == "0" {
				return b.typeStr(t) + "{}"
			}
			return b.fail("non-empty map in the model")
		}
		return b.typeStr(t) + "{}"
	case *types.Signature, *types.Chan:
		if ref, _ := sxInt(v); ref == "0" {
			return "(" + b.typeStr(t) + ")(nil)"
		}
		return b.fail("function or channel value in the model")
	}
	return b.fail("values of type %s are not rebuilt", t)
}

// observable renders "what the real code returned" for one result expression; model side in obsModel.
func obsGo(t types.Type, expr string) string {
	switch u := types.Unalias(t).Underlying().(type) {
	case *types.Basic:
		switch {
		case u.Kind() == types.Float64:
			return fmt.Sprintf(`fmt.Sprintf("f:%%s", zzF(float64(%s)))`, expr)
		case u.Info()&types.IsString != 0:
			return fmt.Sprintf(`fmt.Sprintf("s:%%x", string(%s))`, expr)
		case u.Info()&types.IsBoolean != 0:
			return fmt.Sprintf(`fmt.Sprintf("b:%%v", bool(%s))`, expr)
		case u.Info()&types.IsInteger != 0:
			return fmt.Sprintf(`fmt.Sprintf("i:%%d", %s)`, expr)
		}
	case *types.Interface:
		return fmt.Sprintf(`zzDyn(%s)`, expr)
	case *types.Pointer, *types.Map, *types.Signature, *types.Chan:
		return fmt.Sprintf(`fmt.Sprintf("nil:%%v", %s == nil)`, expr)
	case *types.Slice:
		return fmt.Sprintf(`fmt.Sprintf("len:%%d", len(%s))`, expr)
	}
	return `"?"`
}

// the helper the generated test uses to render an interface value: nil-ness, dynamic type and - for a struct of
// scalars or a scalar - the payload
const zzDynSrc = `
func zzScalar(v reflect.Value) (string, bool) {
	switch v.Kind() {
	case reflect.Bool:
		return fmt.Sprintf("b:%v", v.Bool()), true
	case reflect.Int, reflect.Int8, reflect.Int16, reflect.Int32, reflect.Int64:
		return fmt.Sprintf("i:%d", v.Int()), true
	case reflect.Uint, reflect.Uint8, reflect.Uint16, reflect.Uint32, reflect.Uint64, reflect.Uintptr:
		return fmt.Sprintf("i:%d", v.Uint()), true
	case reflect.Float64:
		return "f:" + zzF(v.Float()), true
	case reflect.String:
		return fmt.Sprintf("s:%x", v.String()), true
	}
	return "", false
}

func zzDyn(x interface{}) string {
	if x == nil {
		return "nil:true"
	}
	v := reflect.ValueOf(x)
	out := fmt.Sprintf("dyn:%T", x)
	if s, ok := zzScalar(v); ok {
		return out + "{" + s + "}"
	}
	if v.Kind() == reflect.Struct {
		out += "{"
		for i := 0; i < v.NumField(); i++ {
			if s, ok := zzScalar(v.Field(i)); ok {
				out += s + ","
			} else {
				out += "_,"
			}
		}
		return out + "}"
	}
	if v.Kind() == reflect.Ptr {
		return out + fmt.Sprintf("{nil:%v}", v.IsNil())
	}
	return out
}
`

func (b *rbuilder) obsModel(t Term) string {
	switch u := types.Unalias(t.T).Underlying().(type) {
	case *types.Basic:
		v, err := b.s.value(t.S)
		if err != nil {
			return "!"
		}
		switch {
		case u.Kind() == types.Float64:
			if bits, ok := sxF64(v); ok {
				f := math.Float64frombits(bits)
				if f != f {
					return "f:NaN"
				}
				return fmt.Sprintf("f:%016x", bits)
			}
		case u.Info()&types.IsString != 0:
			if bs, ok := smtStringBytes(v.atom); ok && v.str {
				return fmt.Sprintf("s:%x", string(bs))
			}
		case u.Info()&types.IsBoolean != 0:
			return "b:" + v.atom
		case u.Info()&types.IsInteger != 0:
			if n, ok := sxInt(v); ok {
				return "i:" + n
			}
		}
		return "!"
	case *types.Pointer, *types.Map, *types.Signature, *types.Chan:
		v, err := b.s.value(fmt.Sprintf("(= %s 0)", t.S))
		if err != nil {
			return "!"
		}
		return "nil:" + v.atom
	case *types.Interface:
		v, err := b.s.value(fmt.Sprintf("(i_tag %s)", t.S))
		if err != nil {
			return "!"
		}
		tag, _ := sxInt(v)
		if tag == "0" {
			return "nil:true"
		}
		var dyn types.Type
		for name, n := range b.g.d.tags {
			if strconv.Itoa(n) == tag {
				dyn = b.g.d.tagTypes[name]
			}
		}
		if dyn == nil {
			return "!"
		}
		out := "dyn:" + types.TypeString(dyn, func(p *types.Package) string { return p.Name() })
		_, unbox := b.g.d.boxOfSort(b.g.d.sortOf(dyn))
		payload := fmt.Sprintf("(%s (i_box %s))", unbox, t.S)
		scalar := func(ft types.Type, term string) (string, bool) {
			if _, isB := types.Unalias(ft).Underlying().(*types.Basic); !isB {
				return "", false
			}
			o := b.obsModel(Term{term, "", ft})
			return o, o != "!" && o != "?"
		}
		if sc, ok := scalar(dyn, payload); ok {
			return out + "{" + sc + "}"
		}
		switch du := types.Unalias(dyn).Underlying().(type) {
		case *types.Struct:
			out += "{"
			for k := 0; k < du.NumFields(); k++ {
				if sc, ok := scalar(du.Field(k).Type(), fmt.Sprintf("(%s %s)", fieldAcc(dyn, k), payload)); ok {
					out += sc + ","
				} else {
					out += "_,"
				}
			}
			return out + "}"
		case *types.Pointer:
			pv, err := b.s.value(fmt.Sprintf("(= %s 0)", payload))
			if err != nil {
				return "!"
			}
			return out + "{nil:" + pv.atom + "}"
		}
		return out
	case *types.Slice:
		v, err := b.s.value(fmt.Sprintf("(s_len %s)", t.S))
		if n, ok := sxInt(v); err == nil && ok {
			return "len:" + n
		}
	}
	return "?"
}

// replayOnRealCode tries to confirm a counterexample on the real code; everything it does is appended to the replay file.
func replayOnRealCode(w *World, fo *funcOutcome, key, agg string, a *aggStatus, path string) (confirmed bool) {
	return replayWith(w, fo, key, agg, a, path, nil, 0)
}

// replayWith: blocks are extra assertions excluding models already tried (a model whose dynamic types led to a run that
// relies on an abstraction is excluded and another one is asked for, at most twice).
func replayWith(w *World, fo *funcOutcome, key, agg string, a *aggStatus, path string, blocks []string, depth int) (confirmed bool) {
	logf, _ := os.OpenFile(path, os.O_APPEND|os.O_WRONLY, 0o644)
	if logf == nil {
		return false
	}
	defer logf.Close()
	say := func(f string, x ...interface{}) { fmt.Fprintf(logf, f+"\n", x...) }
	say("\n---- replay on the real code ----")
	defer func() {
		if r := recover(); r != nil {
			say("replay abandoned: %v", r)
			confirmed = false
		}
	}()
	if fo.VC == nil || fo.VC.rp == nil {
		say("no replay: the obligation is not generated from a Go function body")
		return false
	}
	rp := fo.VC.rp
	fn := rp.fn
	if fn.Parent() != nil || fn.Pkg == nil || len(fn.FreeVars) > 0 {
		say("no replay: %s is a closure (its captured variables cannot be supplied from a test)", key)
		return false
	}
	var o *Obl
	for i, f := range a.Failed {
		if a.FailStatus[i] == "sat" {
			o = f
			break
		}
	}
	if o == nil {
		say("no replay: the solver gave no model (answers: %v)", a.FailStatus)
		return false
	}
	expectPanic := o.Kind == "safety"
	if o.Kind != "safety" && o.Kind != "post" {
		say("no replay: obligations of kind %q (%s) are not observable by calling the function", o.Kind, o.Name)
		return false
	}
	script := oblScript(fo.VC, o)
	if i := strings.LastIndex(script, "(pop 1)"); i >= 0 {
		script = script[:i]
	}
	script = strings.Replace(script, ";;FPDEFS\n", fpPrecise, 1)
	// interface-typed parameters: ask for a model that uses nil or a dynamic type the module defines
	var extra []string
	for _, p := range rp.params {
		if _, isI := types.Unalias(p.T).Underlying().(*types.Interface); isI {
			alts := []string{fmt.Sprintf("(= %s %s)", p.S, nilIface)}
			for name, ty := range rp.g.d.tagTypes {
				if types.AssignableTo(ty, p.T) {
					alts = append(alts, fmt.Sprintf("(= (i_tag %s) %s)", p.S, name))
				}
			}
			sort.Strings(alts)
			extra = append(extra, "(assert (or "+strings.Join(alts, " ")+"))")
		}
	}
	extra = append(extra, blocks...)
	if i := strings.LastIndex(script, "(check-sat)"); i >= 0 && len(extra) > 0 {
		script = script[:i] + strings.Join(extra, "\n") + "\n" + script[i:]
	}
	var s *smtSession
	var b *rbuilder
	var args []string
	for attempt := 0; ; attempt++ {
		var status string
		var err error
		s, status, err = startSession(script, 20000)
		if err != nil || status != "sat" {
			if os.Getenv("GVC_KEEP") != "" {
				os.WriteFile("/var/tmp/replay_session.smt2", []byte(script), 0o644)
			}
			say("no replay: could not re-establish the model (status %q, %v)", status, err)
			if s != nil {
				s.close()
			}
			return false
		}
		b = &rbuilder{s: s, g: rp.g, entry: rp.entry, script: script, pkg: fn.Pkg.Pkg, ptrs: map[string]string{}, imports: map[string]string{}, budget: 400}
		args = nil
		for _, p := range rp.params {
			args = append(args, b.val(p.T, p.S, 0))
		}
		if b.why == "" {
			break
		}
		if len(b.shorter) > 0 && attempt < 8 {
			// the model is needlessly large: constrain it and ask again
			s.close()
			if i := strings.LastIndex(script, "(check-sat)"); i >= 0 {
				script = script[:i] + strings.Join(b.shorter, "\n") + "\n" + script[i:]
			}
			continue
		}
		say("no replay: the model's inputs cannot be rebuilt as Go values: %s", b.why)
		s.close()
		return false
	}
	defer s.close()
	// what the model says the code does
	var wantObs []string
	if !expectPanic {
		var active *Exit
		for k := range rp.exits {
			v, err := s.value(rp.exits[k].en)
			if err == nil && v.atom == "true" {
				active = &rp.exits[k]
				break
			}
		}
		if active == nil {
			say("no replay: the model's run does not end in a normal return")
			return false
		}
		for _, r := range active.results {
			wantObs = append(wantObs, b.obsModel(r))
		}
	}
	// the call
	sig := fn.Signature
	call := ""
	rest := args
	if sig.Recv() != nil {
		call = "(" + args[0] + ")." + fn.Name()
		rest = args[1:]
	} else {
		call = fn.Name()
	}
	call += "(" + strings.Join(rest, ", ") + ")"
	var lhs, obs []string
	for k := 0; k < sig.Results().Len(); k++ {
		lhs = append(lhs, fmt.Sprintf("r%d", k))
		obs = append(obs, obsGo(sig.Results().At(k).Type(), fmt.Sprintf("r%d", k)))
	}
	var src strings.Builder
	fmt.Fprintf(&src, "package %s\n\nimport (\n\t\"fmt\"\n\t\"reflect\"\n\t\"testing\"\n", fn.Pkg.Pkg.Name())
	var imps []string
	for p := range b.imports {
		imps = append(imps, p)
	}
	sort.Strings(imps)
	for _, p := range imps {
		if p == "math" {
			continue
		}
		fmt.Fprintf(&src, "\t%s %q\n", b.imports[p], p)
	}
	fmt.Fprintf(&src, "\t\"math\"\n)\n\nvar _ = math.NaN\n\nfunc zzF(f float64) string {\n\tif f != f {\n\t\treturn \"NaN\"\n\t}\n\treturn fmt.Sprintf(\"%%016x\", math.Float64bits(f))\n}\n\n")
	src.WriteString(zzDynSrc)
	src.WriteString("\nvar _ = reflect.ValueOf\n\n")
	fmt.Fprintf(&src, "// counterexample of %s / %s found by the solver, replayed on the real code\nfunc TestZZGvcReplay(t *testing.T) {\n\tdefer func() {\n\t\tif r := recover(); r != nil {\n\t\t\tfmt.Printf(\"GVCREPLAY panic %%v\\n\", r)\n\t\t}\n\t}()\n", key, o.Name)
	for _, st := range b.stmts {
		fmt.Fprintf(&src, "\t%s\n", st)
	}
	if len(lhs) > 0 {
		fmt.Fprintf(&src, "\t%s := %s\n", strings.Join(lhs, ", "), call)
		fmt.Fprintf(&src, "\tfmt.Println(\"GVCREPLAY returned\", %s)\n", strings.Join(obs, ", "))
	} else {
		fmt.Fprintf(&src, "\t%s\n\tfmt.Println(\"GVCREPLAY returned\")\n", call)
	}
	fmt.Fprintf(&src, "}\n")
	// run it through an overlay
	dir, err := os.MkdirTemp(w.Scratch, "replay")
	if err != nil {
		say("no replay: %v", err)
		return false
	}
	rel := relPkg(fn.Pkg.Pkg.Path())
	testFile := filepath.Join(dir, "zz_gvc_replay_test.go")
	os.WriteFile(testFile, []byte(src.String()), 0o644)
	repl := map[string]string{filepath.Join(w.RepoDir, rel, "zz_gvc_replay_test.go"): testFile}
	k := 0
	for target, content := range w.Overlay {
		k++
		f := filepath.Join(dir, fmt.Sprintf("overlay%d.go", k))
		os.WriteFile(f, content, 0o644)
		repl[target] = f
	}
	ov, _ := json.Marshal(map[string]interface{}{"Replace": repl})
	ovFile := filepath.Join(dir, "overlay.json")
	os.WriteFile(ovFile, ov, 0o644)
	cmd := exec.Command("go", "test", "-overlay", ovFile, "-vet=off", "-v", "-count=1", "-timeout", "60s", "-run", "^TestZZGvcReplay$", "./"+rel)
	cmd.Dir = w.RepoDir
	cmd.Env = goEnv()
	done := make(chan struct{})
	var out []byte
	go func() { out, _ = cmd.CombinedOutput(); close(done) }()
	select {
	case <-done:
	case <-time.After(150 * time.Second):
		cmd.Process.Kill()
		<-done
	}
	say("generated test (in-package, injected with go test -overlay; nothing is written to the repository):\n%s", src.String())
	say("command: (cd %s && go test -overlay <overlay.json> -vet=off -count=1 -timeout 60s -run '^TestZZGvcReplay$' ./%s)", w.RepoDir, rel)
	var got string
	for _, ln := range strings.Split(string(out), "\n") {
		if strings.HasPrefix(ln, "GVCREPLAY ") {
			got = strings.TrimSpace(strings.TrimPrefix(ln, "GVCREPLAY "))
		}
	}
	say("output of the real code: %s", got)
	if got == "" {
		say("no confirmation: the test did not run to its end:\n%s", tail(string(out), 1500))
		return false
	}
	if expectPanic {
		if strings.HasPrefix(got, "panic ") {
			say("CONFIRMED: the real code panics on the solver's inputs (%s)", got)
			return true
		}
		say("not confirmed: the real code did not panic on these inputs")
		return false
	}
	want := strings.TrimSpace("returned " + strings.Join(wantObs, " "))
	say("behaviour of the code according to the model: %s", want)
	for _, x := range wantObs {
		if x == "!" || x == "?" {
			say("not confirmed: a result of the model cannot be compared")
			return false
		}
	}
	if got == want {
		say("CONFIRMED: the real code returns exactly what the model says, and the solver has shown that the contract clause\n  %s\nis false for these inputs and results", o.Descr)
		return true
	}
	say("not confirmed: the real code behaves differently from the model (the model relies on an abstraction of a callee or of arithmetic)")
	if depth < 2 && len(b.choices) > 0 {
		say("asking the solver for a model with other dynamic types ...")
		s.close()
		return replayWith(w, fo, key, agg, a, path, append(blocks, "(assert (not (and "+strings.Join(b.choices, " ")+")))"), depth+1)
	}
	return false
}

func tail(s string, n int) string {
	if len(s) > n {
		return s[len(s)-n:]
	}
	return s
}

func sxString(v sx) string {
	if v.isAtom() {
		if v.str {
			return strconv.Quote(v.atom)
		}
		return v.atom
	}
	var ps []string
	for _, x := range v.list {
		ps = append(ps, sxString(x))
	}
	return "(" + strings.Join(ps, " ") + ")"
}
