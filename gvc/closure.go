package main

import (
	"fmt"

	"golang.org/x/tools/go/ssa"
)

type closureInfo struct {
	fn    *ssa.Function
	binds []Arg
}

func (g *Gen) instrMakeClosure(f *Frame, i *ssa.MakeClosure) {
	r := g.alloc(f.st, f.en)
	fn := i.Fn.(*ssa.Function)
	n := g.define(f.name(i), "Int", r)
	f.vals[i] = Term{n, "Int", i.Type()}
	var binds []Arg
	for _, b := range i.Bindings {
		binds = append(binds, g.argOf(f, b))
	}
	if g.closures == nil {
		g.closures = map[string]closureInfo{}
	}
	g.closures[n] = closureInfo{fn, binds}
	g.d.add("fn:clo_fn", "(declare-fun clo_fn (Int) Int)")
	g.assume(f.en, fmt.Sprintf("(= (clo_fn %s) %s)", n, g.fnConst(fn)))
}

// resolveFuncValue tries to find the static target of a function value term.
func (g *Gen) resolveFuncValue(t Term) (closureInfo, bool) {
	if ci, ok := g.closures[t.S]; ok {
		return ci, true
	}
	if fn, ok := g.fnByConst[t.S]; ok {
		return closureInfo{fn: fn}, true
	}
	return closureInfo{}, false
}
