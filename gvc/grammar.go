package main

import (
	"encoding/json"
	"fmt"
	"os"
	"os/exec"
	"path/filepath"
	"regexp"
	"sort"
	"strings"
)

// ---- grammar obligations: the productions and actions of a yacc grammar against an expected table ----

type grammarSpec struct {
	Grammar   string              `json:"grammar"` // repo-relative path of the .y file
	Generated string              `json:"generated"`
	Prefix    string              `json:"prefix"`
	Source    string              `json:"source"`
	Rows      map[string][]string `json:"rows"`
	Closed    bool                `json:"closed"`
}

type yaccAlt struct {
	Syms   []string
	Action string
}

var callRe = regexp.MustCompile(`getProgBldr\(\w+\)\s*\.\s*(\w+)\s*\(`)

// normAction turns an action block into a canonical list of ProgBuilder calls: "CodeFn(Or)", "CodeBltin($1,2)", ...
func normAction(a string) string {
	a = strings.Join(strings.Fields(a), "")
	var calls []string
	for i := 0; i < len(a); {
		loc := callRe.FindStringSubmatchIndex(a[i:])
		if loc == nil {
			break
		}
		name := a[i+loc[2] : i+loc[3]]
		j := i + loc[1] // after '('
		depth, k := 1, j
		for ; k < len(a) && depth > 0; k++ {
			switch a[k] {
			case '(':
				depth++
			case ')':
				depth--
			}
		}
		args := a[j : k-1]
		// CodeFn(getProgBldr(lex).Or,"or") -> CodeFn(Or)
		if m := regexp.MustCompile(`^getProgBldr\(\w+\)\.(\w+),`).FindStringSubmatch(args); m != nil && name == "CodeFn" {
			args = m[1]
		}
		calls = append(calls, name+"("+args+")")
		i = k
	}
	return strings.Join(calls, ";")
}

// parseYaccRules parses the rules section (between the first and second %%) of a yacc file.
func parseYaccRules(src string) (map[string][]yaccAlt, error) {
	i := strings.Index(src, "\n%%")
	if i < 0 {
		return nil, fmt.Errorf("no rules section")
	}
	body := src[i+3:]
	if j := strings.Index(body, "\n%%"); j >= 0 {
		body = body[:j]
	}
	rules := map[string][]yaccAlt{}
	var toks []string
	for p := 0; p < len(body); {
		c := body[p]
		switch {
		case c == ' ' || c == '\t' || c == '\n' || c == '\r':
			p++
		case strings.HasPrefix(body[p:], "//"):
			for p < len(body) && body[p] != '\n' {
				p++
			}
		case strings.HasPrefix(body[p:], "/*"):
			e := strings.Index(body[p:], "*/")
			if e < 0 {
				return nil, fmt.Errorf("unterminated comment")
			}
			p += e + 2
		case c == '{':
			depth, q := 0, p
			for ; q < len(body); q++ {
				if body[q] == '{' {
					depth++
				} else if body[q] == '}' {
					depth--
					if depth == 0 {
						break
					}
				}
			}
			toks = append(toks, "{"+body[p+1:q]+"}")
			p = q + 1
		case c == '\'':
			q := p + 1
			for q < len(body) && body[q] != '\'' {
				q++
			}
			toks = append(toks, body[p:q+1])
			p = q + 1
		case c == ':' || c == '|' || c == ';':
			toks = append(toks, string(c))
			p++
		default:
			q := p
			for q < len(body) && !strings.ContainsRune(" \t\n\r:|;{'", rune(body[q])) {
				q++
			}
			toks = append(toks, body[p:q])
			p = q
		}
	}
	// rules: NAME ':' alt ('|' alt)* [';']   -- a new rule starts at IDENT followed by ':'
	for k := 0; k < len(toks); {
		if k+1 >= len(toks) || toks[k+1] != ":" {
			return nil, fmt.Errorf("expected rule header at token %q", toks[k])
		}
		lhs := toks[k]
		k += 2
		cur := yaccAlt{}
		flush := func() {
			rules[lhs] = append(rules[lhs], cur)
			cur = yaccAlt{}
		}
		for k < len(toks) {
			t := toks[k]
			if t == ";" {
				k++
				break
			}
			if k+1 < len(toks) && toks[k+1] == ":" && t != "|" && !strings.HasPrefix(t, "{") {
				break // next rule without terminating ';'
			}
			switch {
			case t == "|":
				flush()
			case strings.HasPrefix(t, "{"):
				if cur.Action != "" {
					cur.Action += ";"
				}
				cur.Action += normAction(t)
			case t == "%prec":
				k++ // skip the precedence token
			default:
				cur.Syms = append(cur.Syms, t)
			}
			k++
		}
		flush()
	}
	return rules, nil
}

func altString(a yaccAlt) string {
	s := strings.Join(a.Syms, " ")
	if s == "" {
		s = "(empty)"
	}
	if a.Action != "" {
		s += " => " + a.Action
	}
	return s
}

func grammarOutcome(w *World, fo *funcOutcome) {
	name := strings.TrimPrefix(fo.Key, "grammar:")
	fo.VC = &VCResult{Key: fo.Key}
	b, err := os.ReadFile(filepath.Join(verifDir(), "spec", "grammars", name+".json"))
	if err != nil {
		fo.VC.Err = err
		return
	}
	var gs grammarSpec
	if err := json.Unmarshal(b, &gs); err != nil {
		fo.VC.Err = err
		return
	}
	src, err := os.ReadFile(filepath.Join(w.RepoDir, gs.Grammar))
	if err != nil {
		fo.VC.Err = err
		return
	}
	rules, err := parseYaccRules(string(src))
	if err != nil {
		fo.VC.Err = fmt.Errorf("%s: %v", gs.Grammar, err)
		return
	}
	fo.Res = map[int]OblResult{}
	add := func(name, descr string, ok bool, backend string) {
		i := len(fo.VC.Obls)
		fo.VC.Obls = append(fo.VC.Obls, &Obl{Name: name, Kind: "table", Offset: i, Func: fo.Key, Descr: descr, Pos: gs.Grammar})
		st := "unsat"
		if !ok {
			st = "sat"
		}
		fo.Res[i] = OblResult{Status: st, Solver: backend}
	}
	var nts []string
	for nt := range gs.Rows {
		nts = append(nts, nt)
	}
	sort.Strings(nts)
	for _, nt := range nts {
		want := append([]string{}, gs.Rows[nt]...)
		sort.Strings(want)
		var got []string
		for _, a := range rules[nt] {
			got = append(got, altString(a))
		}
		sort.Strings(got)
		add("prod["+nt+"]", fmt.Sprintf("productions of %s in %s: %q ; expected (%s): %q", nt, gs.Grammar, got, gs.Source, want),
			strings.Join(got, "\n") == strings.Join(want, "\n"), "grammar-extract")
	}
	if gs.Closed {
		var extra []string
		for nt := range rules {
			if _, ok := gs.Rows[nt]; !ok {
				extra = append(extra, nt)
			}
		}
		sort.Strings(extra)
		add("prod[no-other-nonterminals]", fmt.Sprintf("nonterminals not in the expected table: %v", extra), len(extra) == 0, "grammar-extract")
	}
	// the generated parser is goyacc(grammar): regenerate and compare (ignoring the "Code generated" header line)
	if gs.Generated != "" {
		out := filepath.Join(w.Scratch, name+".gen.go")
		cmd := exec.Command(filepath.Join(verifDir(), "bin", "goyacc"), "-p", gs.Prefix, "-o", out, filepath.Join(w.RepoDir, gs.Grammar))
		cmd.Dir = w.Scratch
		msg, err := cmd.CombinedOutput()
		same, conflicts := false, true
		if err == nil {
			a, _ := os.ReadFile(out)
			bb, _ := os.ReadFile(filepath.Join(w.RepoDir, gs.Generated))
			strip := func(s string) string {
				var ls []string
				for _, l := range strings.Split(s, "\n") {
					if strings.HasPrefix(l, "// Code generated by goyacc") || strings.HasPrefix(l, "//line ") {
						continue
					}
					ls = append(ls, l)
				}
				return strings.Join(ls, "\n")
			}
			same = strip(string(a)) == strip(string(bb))
			conflicts = strings.Contains(string(msg), "conflicts:")
		}
		add("generated", fmt.Sprintf("%s is what goyacc generates from %s (goyacc output: %s)", gs.Generated, gs.Grammar, strings.TrimSpace(string(msg))), same, "goyacc-regeneration")
		add("conflicts", "goyacc reports no shift/reduce or reduce/reduce conflict (the derivation of every sentence is unique): "+strings.TrimSpace(string(msg)), !conflicts && err == nil, "goyacc-regeneration")
	}
	fo.VC.Trusted = []string{"grammar " + gs.Grammar + ": productions and actions extracted by gvc's yacc-rule reader; expected rows transcribed from " + gs.Source + "; goyacc's LALR construction is trusted"}
}
