package main

import (
	"go/types"
	"sort"

	"golang.org/x/tools/go/ssa"
)

func typeAndPtr(m *ssa.Type) []types.Type {
	t := m.Type()
	return []types.Type{t, types.NewPointer(t)}
}

func recvString(t types.Type) string {
	if p, ok := t.(*types.Pointer); ok {
		if n, ok := p.Elem().(*types.Named); ok {
			return "(*" + n.Obj().Name() + ")"
		}
	}
	if n, ok := t.(*types.Named); ok {
		return "(" + n.Obj().Name() + ")"
	}
	return "(" + t.String() + ")"
}

// concreteTypes lists the named non-interface types of the module (and pointers to them).
func (w *World) concreteTypes() []types.Type {
	if w.ctypes != nil {
		return w.ctypes
	}
	var names []string
	byName := map[string]types.Type{}
	for _, sp := range w.SSAPkgs {
		for _, m := range sp.Members {
			if t, ok := m.(*ssa.Type); ok {
				if _, isI := t.Type().Underlying().(*types.Interface); isI {
					continue
				}
				if n, ok := t.Type().(*types.Named); ok && n.TypeParams().Len() > 0 {
					continue
				}
				k := typeName(t.Type())
				byName[k] = t.Type()
				byName["ptr."+k] = types.NewPointer(t.Type())
				names = append(names, k, "ptr."+k)
			}
		}
	}
	sort.Strings(names)
	for _, n := range names {
		w.ctypes = append(w.ctypes, byName[n])
	}
	return w.ctypes
}

func isFloatSort(s string) bool { return s == "F64" || s == "F32" }

// initNonNil reports whether the package-level variable is assigned only in the package initialiser,
// and there with a freshly made (non-nil) map, slice, channel or pointer.
func (w *World) initNonNil(gl *ssa.Global) bool {
	if w.inn == nil {
		w.inn = map[*ssa.Global]bool{}
		bad := map[*ssa.Global]bool{}
		for _, sp := range w.SSAPkgs {
			for _, m := range sp.Members {
				fn, ok := m.(*ssa.Function)
				if !ok {
					continue
				}
				var visit func(fn *ssa.Function)
				visit = func(fn *ssa.Function) {
					for _, b := range fn.Blocks {
						for _, ins := range b.Instrs {
							st, ok := ins.(*ssa.Store)
							if !ok {
								continue
							}
							g, ok := st.Addr.(*ssa.Global)
							if !ok {
								continue
							}
							fresh := false
							switch st.Val.(type) {
							case *ssa.MakeMap, *ssa.MakeSlice, *ssa.MakeChan, *ssa.Alloc, *ssa.MakeClosure:
								fresh = true
							}
							if fn.Name() == "init" && fn.Parent() == nil && fresh {
								w.inn[g] = true
							} else {
								bad[g] = true
							}
						}
					}
					for _, a := range fn.AnonFuncs {
						visit(a)
					}
				}
				visit(fn)
			}
			// methods
		}
		for _, fn := range w.Funcs {
			if fn.Name() == "init" && fn.Parent() == nil {
				continue
			}
			for _, b := range fn.Blocks {
				for _, ins := range b.Instrs {
					if st, ok := ins.(*ssa.Store); ok {
						if g, ok := st.Addr.(*ssa.Global); ok {
							bad[g] = true
						}
					}
				}
			}
		}
		for g := range bad {
			delete(w.inn, g)
		}
	}
	return w.inn[gl]
}
