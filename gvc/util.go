package main

import (
	"go/types"
	"sort"

	"golang.org/x/tools/go/ssa"
)

func typeAndPtr(m *ssa.Type) []types.Type {
	t := m.Type()
	return []types.Type{t, types.NewPointer(t)}
}

func recvString(t types.Type) string {
	if p, ok := t.(*types.Pointer); ok {
		if n, ok := p.Elem().(*types.Named); ok {
			return "(*" + n.Obj().Name() + ")"
		}
	}
	if n, ok := t.(*types.Named); ok {
		return "(" + n.Obj().Name() + ")"
	}
	return "(" + t.String() + ")"
}

// concreteTypes lists the named non-interface types of the module (and pointers to them).
func (w *World) concreteTypes() []types.Type {
	if w.ctypes != nil {
		return w.ctypes
	}
	var names []string
	byName := map[string]types.Type{}
	for _, sp := range w.SSAPkgs {
		for _, m := range sp.Members {
			if t, ok := m.(*ssa.Type); ok {
				if _, isI := t.Type().Underlying().(*types.Interface); isI {
					continue
				}
				if n, ok := t.Type().(*types.Named); ok && n.TypeParams().Len() > 0 {
					continue
				}
				k := typeName(t.Type())
				byName[k] = t.Type()
				byName["ptr."+k] = types.NewPointer(t.Type())
				names = append(names, k, "ptr."+k)
			}
		}
	}
	sort.Strings(names)
	for _, n := range names {
		w.ctypes = append(w.ctypes, byName[n])
	}
	return w.ctypes
}

func isFloatSort(s string) bool { return s == "F64" || s == "F32" }
