package main

import (
	"fmt"
	"go/token"
	"go/types"
	"sort"
	"strings"

	"golang.org/x/tools/go/ssa"
)

// State is a symbolic heap: component name -> current version term.
type State struct {
	comp map[string]string
	base string // epoch for components not in comp
}

func (s *State) clone() *State {
	n := &State{comp: make(map[string]string, len(s.comp)), base: s.base}
	for k, v := range s.comp {
		n.comp[k] = v
	}
	return n
}

type Obl struct {
	Name   string
	Kind   string // post, pre, inv.init, inv.keep, var, safety, arith, nopanic, frame, canary
	Descr  string
	Pos    string
	Offset int // position in script (index of the obligation)
	Claim  string
	Func   string
}

// Gen generates the SMT script of one function under verification.
type Gen struct {
	dbgCache  map[*ssa.Function]map[string]dbgName
	w         *World
	d         *Decls
	specs     *Specs
	contracts map[string]*Contract
	body      strings.Builder
	obls      []*Obl
	nfresh    int
	compSort  map[string]string // heap component -> sort of the whole component
	declared  map[string]bool
	trusted   map[string]bool // assumptions used
	inlined   map[string]bool
	havocked  map[string]bool
	top       *ssa.Function
	topC      *Contract
	safetyN   int
	arithN    int
	maxInline int
	stack     []*ssa.Function // inline stack
	preTrack  string
	pctx      []*panicCtx
	closures  map[string]closureInfo
	fnByConst map[string]*ssa.Function
	cellFn      map[string]closureInfo
	cellLog     map[string]cellStore // version of a cell component -> the store that produced it
	allocCanon  map[string]string    // names of allocation results (ref!N and the SSA value defined as it) -> ref!N
	frameOn      bool
	frameAllowed map[string][]string
	frameNow0    string
	topEntry     *State
	frameOnlyKept map[string]bool
	calleeKeeps   map[string]bool
	frameN       int
	cur          *Frame
	verBound     map[string]string
	tblOK        map[string]bool
	nextBound    string
	regions     []knownFinding
	callArgs    []Arg // operands of the call a callsite clause is being checked at (callarg0, callarg1, ...)
	regionTerms map[string]string
}

func newGen(w *World, specs *Specs, contracts map[string]*Contract) *Gen {
	return &Gen{w: w, d: newDecls(), specs: specs, contracts: contracts,
		compSort: map[string]string{}, declared: map[string]bool{}, trusted: map[string]bool{},
		inlined: map[string]bool{}, havocked: map[string]bool{}, maxInline: 7, verBound: map[string]string{}}
}

func (g *Gen) fresh(base string) string {
	g.nfresh++
	return fmt.Sprintf("%s!%d", sanitize(base), g.nfresh)
}

func (g *Gen) emit(f string, a ...interface{}) {
	fmt.Fprintf(&g.body, f, a...)
	g.body.WriteString("\n")
}

func (g *Gen) declare(name, sort string) {
	if g.declared[name] {
		return
	}
	g.declared[name] = true
	g.emit("(declare-const %s %s)", name, sort)
}

func (g *Gen) define(name, sort, term string) string {
	g.declared[name] = true
	g.emit("(define-fun %s () %s %s)", name, sort, term)
	return name
}

// defFresh introduces a named constant equal to term (keeps terms small).
func (g *Gen) defFresh(base, sort, term string) string {
	return g.define(g.fresh(base), sort, term)
}

func (g *Gen) assume(guard, f string) {
	if f == "true" {
		return
	}
	if guard == "true" || guard == "" {
		g.emit("(assert %s)", f)
	} else {
		g.emit("(assert (=> %s %s))", guard, f)
	}
}

func (g *Gen) oblige(name, kind, guard, f, descr string, pos token.Pos) {
	g.obligeX(name, kind, guard, f, descr, pos, true)
}

func (g *Gen) obligeX(name, kind, guard, f, descr string, pos token.Pos, assumeAfter bool) {
	o := &Obl{Name: name, Kind: kind, Descr: descr, Offset: len(g.obls), Func: funcKey(g.top)}
	if pos.IsValid() {
		p := g.w.Fset.Position(pos)
		o.Pos = fmt.Sprintf("%s:%d", strings.TrimPrefix(p.Filename, g.w.RepoDir+"/"), p.Line)
	}
	g.obls = append(g.obls, o)
	if r, ok := g.regionTerms[aggNameOf(name, kind)]; ok && kind != "canary" && kind != "kf.canary" {
		// known finding: the obligation is checked outside the recorded region only;
		// inside the region it is expected to fail (canary, not assumed).
		inside := fmt.Sprintf("(=> %s %s)", r, f)
		f = fmt.Sprintf("(=> (not %s) %s)", r, f)
		defer g.obligeX("kf:"+name, "kf.canary", guard, inside, "known finding still present (expected NOT provable)", pos, false)
	}
	imp := f
	if guard != "true" && guard != "" {
		imp = fmt.Sprintf("(=> %s %s)", guard, f)
	}
	g.emit(";;OBL %d %s", o.Offset, name)
	g.emit("(push 1)")
	g.emit("(assert (not %s))", imp)
	g.emit("(echo \"OBL %d\")", o.Offset)
	g.emit("(check-sat)")
	g.emit("(pop 1)")
	g.emit(";;ENDOBL %d", o.Offset)
	if assumeAfter {
		g.emit("(assert %s)", imp)
	}
}

// ---- heap components ----

func (g *Gen) compDecl(comp, sort string) {
	if old, ok := g.compSort[comp]; ok {
		if old != sort {
			panic(fmt.Sprintf("component %s sort mismatch %s vs %s", comp, old, sort))
		}
		return
	}
	g.compSort[comp] = sort
}

func (g *Gen) get(s *State, comp string) string {
	if v, ok := s.comp[comp]; ok {
		return v
	}
	name := comp + "@" + s.base
	sort, ok := g.compSort[comp]
	if !ok {
		panic("undeclared component " + comp)
	}
	g.declare(name, sort)
	return name
}

func (g *Gen) set(s *State, comp, term string) {
	v := g.defFresh(comp, g.compSort[comp], term)
	s.comp[comp] = v
	if comp != nowComp {
		g.verBound[v] = g.now(s)
	}
}

// boundOf: every reference stored in the current version of comp is at most this allocation counter.
func (g *Gen) boundOf(st *State, comp string) string {
	v := g.get(st, comp)
	if b, ok := g.verBound[v]; ok {
		return b
	}
	if i := strings.LastIndex(v, "@"); i >= 0 && v[:i] == comp {
		g.compDecl(nowComp, "Int")
		return g.get(&State{comp: map[string]string{}, base: v[i+1:]}, nowComp)
	}
	return g.now(st)
}

// loadBound: allocation bound of a reference loaded from l. The bound of the component's version holds for the
// objects that existed at that version; a field of an object allocated later (e.g. by a callee whose contract describes
// the fields of its fresh result) is only known to be allocated by now.
func (g *Gen) loadBound(st *State, l *Loc) string {
	vb, nowc := g.boundOf(st, l.comp), g.now(st)
	if vb == nowc || l.ref == "" || l.ref == "0" {
		return vb
	}
	return fmt.Sprintf("(ite (<= %s %s) %s %s)", l.ref, vb, vb, nowc)
}

func (g *Gen) fieldComp(st types.Type, idx int) (comp string, fsort string, ftype types.Type) {
	u := types.Unalias(st).Underlying().(*types.Struct)
	f := u.Field(idx)
	comp = "F$" + typeName(st) + "$" + sanitize(f.Name())
	fsort = g.d.sortOf(f.Type())
	g.compDecl(comp, "(Array Int "+fsort+")")
	return comp, fsort, f.Type()
}

func (g *Gen) elemComp(elem types.Type) (comp string, esort string) {
	esort = g.d.sortOf(elem)
	// one component per Go element type: backing arrays of different element types never alias
	comp = "E$" + compTypeName(elem)
	g.compDecl(comp, "(Array Int (Array Int "+esort+"))")
	return
}

func (g *Gen) cellComp(elem types.Type) (comp string, esort string) {
	esort = g.d.sortOf(elem)
	comp = "C$" + compTypeName(elem)
	g.compDecl(comp, "(Array Int "+esort+")")
	return
}

func (g *Gen) mapComps(m *types.Map) (val, has, ln string, ksort, vsort string) {
	ksort, vsort = g.d.sortOf(m.Key()), g.d.sortOf(m.Elem())
	base := compTypeName(m.Key()) + "$" + compTypeName(m.Elem())
	val, has, ln = "MV$"+base, "MH$"+base, "ML$"+base
	g.compDecl(val, "(Array Int (Array "+ksort+" "+vsort+"))")
	g.compDecl(has, "(Array Int (Array "+ksort+" Bool))")
	g.compDecl(ln, "(Array Int Int)")
	return
}

const nowComp = "now"

func (g *Gen) now(s *State) string {
	g.compDecl(nowComp, "Int")
	return g.get(s, nowComp)
}

// alloc returns a fresh reference.
func (g *Gen) alloc(s *State, en string) string {
	n := g.now(s)
	r := g.defFresh("ref", "Int", fmt.Sprintf("(+ %s 1)", n))
	s.comp[nowComp] = r
	return r
}

// ---- locations ----

// Loc is a generator-level pointer: a root storage cell plus a path of struct fields.
type Loc struct {
	kind  string // "field" (ref.f), "elem" (slice[i]), "cell" (*p)
	ref   string // field: object ref; elem: backing ref; cell: ref
	idx   string // elem: absolute index term
	comp  string
	rsort string     // sort of the root value
	rtype types.Type // Go type of root value
	path  []pathEl   // struct fields / array indexes below the root
	typ   types.Type // Go type of the designated value
}

// pathEl is one step below the root of a location: a struct field or an array element.
type pathEl struct {
	field int
	idx   string // non-empty: array index term
}

func (l *Loc) sub(i int) *Loc {
	u := types.Unalias(l.typ).Underlying().(*types.Struct)
	n := *l
	n.path = append(append([]pathEl{}, l.path...), pathEl{field: i})
	n.typ = u.Field(i).Type()
	return &n
}

// subIdx: element idx of an array-typed location.
func (l *Loc) subIdx(idx string) *Loc {
	a := types.Unalias(l.typ).Underlying().(*types.Array)
	n := *l
	n.path = append(append([]pathEl{}, l.path...), pathEl{idx: idx})
	n.typ = a.Elem()
	return &n
}

func (g *Gen) locRootRead(s *State, l *Loc) string {
	h := g.get(s, l.comp)
	switch l.kind {
	case "field", "cell":
		return fmt.Sprintf("(select %s %s)", h, l.ref)
	case "elem":
		return fmt.Sprintf("(select (select %s %s) %s)", h, l.ref, l.idx)
	}
	panic("bad loc")
}

func (g *Gen) locRootWrite(s *State, l *Loc, v string) {
	g.frameWrite(l.comp, l.ref)
	h := g.get(s, l.comp)
	switch l.kind {
	case "field", "cell":
		g.set(s, l.comp, fmt.Sprintf("(store %s %s %s)", h, l.ref, v))
	case "elem":
		g.set(s, l.comp, fmt.Sprintf("(store %s %s (store (select %s %s) %s %s))", h, l.ref, h, l.ref, l.idx, v))
	}
}

func fieldAcc(st types.Type, i int) string {
	u := types.Unalias(st).Underlying().(*types.Struct)
	return "f$" + typeName(st) + "$" + sanitize(u.Field(i).Name())
}

func (g *Gen) read(s *State, l *Loc) string {
	v := g.locRootRead(s, l)
	t := l.rtype
	for _, pe := range l.path {
		if pe.idx != "" {
			v = fmt.Sprintf("(select %s %s)", v, pe.idx)
			t = types.Unalias(t).Underlying().(*types.Array).Elem()
			continue
		}
		v = fmt.Sprintf("(%s %s)", fieldAcc(t, pe.field), v)
		t = types.Unalias(t).Underlying().(*types.Struct).Field(pe.field).Type()
	}
	return v
}

// updStruct builds a struct value equal to sv (type st) with path updated to nv.
func (g *Gen) updStruct(st types.Type, sv string, path []pathEl, nv string) string {
	if len(path) == 0 {
		return nv
	}
	if path[0].idx != "" {
		a := types.Unalias(st).Underlying().(*types.Array)
		cur := fmt.Sprintf("(select %s %s)", sv, path[0].idx)
		return fmt.Sprintf("(store %s %s %s)", sv, path[0].idx, g.updStruct(a.Elem(), cur, path[1:], nv))
	}
	g.d.sortOf(st)
	u := types.Unalias(st).Underlying().(*types.Struct)
	var fs []string
	for i := 0; i < u.NumFields(); i++ {
		cur := fmt.Sprintf("(%s %s)", fieldAcc(st, i), sv)
		if i == path[0].field {
			cur = g.updStruct(u.Field(i).Type(), cur, path[1:], nv)
		}
		fs = append(fs, cur)
	}
	return "(mk$" + typeName(st) + " " + strings.Join(fs, " ") + ")"
}

func (g *Gen) write(s *State, l *Loc, v string) {
	if len(l.path) == 0 {
		g.locRootWrite(s, l, v)
		return
	}
	root := g.locRootRead(s, l)
	g.locRootWrite(s, l, g.updStruct(l.rtype, root, l.path, v))
}

// fieldLoc: location of field i of the struct object referenced by ref (type *st).
func (g *Gen) fieldLoc(ref string, st types.Type, i int) *Loc {
	comp, fsort, ft := g.fieldComp(st, i)
	return &Loc{kind: "field", ref: ref, comp: comp, rsort: fsort, rtype: ft, typ: ft}
}

func (g *Gen) cellLoc(ref string, elem types.Type) *Loc {
	comp, es := g.cellComp(elem)
	return &Loc{kind: "cell", ref: ref, comp: comp, rsort: es, rtype: elem, typ: elem}
}

func (g *Gen) elemLoc(sl string, idx string, elem types.Type) *Loc {
	comp, es := g.elemComp(elem)
	return &Loc{kind: "elem", ref: fmt.Sprintf("(s_ref %s)", sl), idx: fmt.Sprintf("(eidx (s_off %s) %s)", sl, idx), comp: comp, rsort: es, rtype: elem, typ: elem}
}

// loadStruct reads a whole struct value through a ref (pointer to struct in the heap).
func (g *Gen) loadStruct(s *State, ref string, st types.Type) string {
	u := types.Unalias(st).Underlying().(*types.Struct)
	g.d.sortOf(st)
	if u.NumFields() == 0 {
		return "mk$" + typeName(st)
	}
	var fs []string
	for i := 0; i < u.NumFields(); i++ {
		fs = append(fs, g.read(s, g.fieldLoc(ref, st, i)))
	}
	return "(mk$" + typeName(st) + " " + strings.Join(fs, " ") + ")"
}

func (g *Gen) storeStruct(s *State, ref string, st types.Type, v string) {
	u := types.Unalias(st).Underlying().(*types.Struct)
	for i := 0; i < u.NumFields(); i++ {
		g.write(s, g.fieldLoc(ref, st, i), fmt.Sprintf("(%s %s)", fieldAcc(st, i), v))
	}
}

func isStruct(t types.Type) bool {
	_, ok := types.Unalias(t).Underlying().(*types.Struct)
	return ok
}

func ptrElem(t types.Type) types.Type {
	if p, ok := types.Unalias(t).Underlying().(*types.Pointer); ok {
		return p.Elem()
	}
	return nil
}

// mergeStates joins states over guarded incoming edges.
func (g *Gen) mergeStates(ens []string, sts []*State) *State {
	if len(sts) == 1 {
		return sts[0].clone()
	}
	keys := map[string]bool{}
	for _, s := range sts {
		for k := range s.comp {
			keys[k] = true
		}
	}
	base := sts[0].base
	for _, s := range sts {
		if s.base != base {
			// different havoc epochs: merge every component known so far under a new epoch
			g.nfresh++
			base = fmt.Sprintf("m%d", g.nfresh)
			for k := range g.compSort {
				keys[k] = true
			}
			break
		}
	}
	out := &State{comp: map[string]string{}, base: base}
	var ks []string
	for k := range keys {
		ks = append(ks, k)
	}
	sort.Strings(ks)
	for _, k := range ks {
		vals := make([]string, len(sts))
		same := true
		for i, s := range sts {
			vals[i] = g.get(s, k)
			if vals[i] != vals[0] {
				same = false
			}
		}
		if same {
			out.comp[k] = vals[0]
			continue
		}
		t := vals[len(vals)-1]
		for i := len(vals) - 2; i >= 0; i-- {
			t = fmt.Sprintf("(ite %s %s %s)", ens[i], vals[i], t)
		}
		out.comp[k] = g.defFresh(k, g.compSort[k], t)
	}
	if len(g.compSort) > 0 {
		if _, ok := g.compSort[nowComp]; ok {
			n := g.now(out)
			for _, k := range ks {
				if k != nowComp {
					if _, has := g.verBound[out.comp[k]]; !has {
						g.verBound[out.comp[k]] = n
					}
				}
			}
		}
	}
	return out
}

func and(xs ...string) string {
	var ys []string
	for _, x := range xs {
		if x == "true" || x == "" {
			continue
		}
		if x == "false" {
			return "false"
		}
		ys = append(ys, x)
	}
	switch len(ys) {
	case 0:
		return "true"
	case 1:
		return ys[0]
	}
	return "(and " + strings.Join(ys, " ") + ")"
}

func or(xs ...string) string {
	var ys []string
	for _, x := range xs {
		if x == "false" || x == "" {
			continue
		}
		if x == "true" {
			return "true"
		}
		ys = append(ys, x)
	}
	switch len(ys) {
	case 0:
		return "false"
	case 1:
		return ys[0]
	}
	return "(or " + strings.Join(ys, " ") + ")"
}

func not(x string) string {
	switch x {
	case "true":
		return "false"
	case "false":
		return "true"
	}
	return "(not " + x + ")"
}

// compTypeName names the heap component of values of Go type t. Basic types are identified by their sort
// (byte/uint8, rune/int32 are identical types; named basic types may be converted element-wise only by copying).
func compTypeName(t types.Type) string {
	t = types.Unalias(t)
	if b, ok := t.(*types.Basic); ok {
		return fmt.Sprintf("b%d", b.Kind()) // byte and uint8, rune and int32 share a kind
	}
	return typeName(t)
}
