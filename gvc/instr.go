package main

import (
	"fmt"
	"go/token"
	"go/types"
	"strings"

	"golang.org/x/tools/go/ssa"
)

func (g *Gen) safety(f *Frame, cond, what string, pos token.Pos) {
	g.safetyN++
	g.oblige(fmt.Sprintf("safety#%d:%s", g.safetyN, what), "safety", f.en, cond, what, pos)
}

func (g *Gen) arith(f *Frame, cond, what string, pos token.Pos) {
	g.arithN++
	g.oblige(fmt.Sprintf("arith#%d:%s", g.arithN, what), "arith", f.en, cond, what, pos)
}

func (g *Gen) inRange(t types.Type, term string) string {
	lo, hi, ok := intRange(t)
	if !ok {
		return "true"
	}
	return fmt.Sprintf("(and (<= %s %s) (<= %s %s))", lo, term, term, hi)
}

func (g *Gen) instr(f *Frame, ci *cfgInfo, b *ssa.BasicBlock, ins ssa.Instruction) {
	g.cur = f
	switch i := ins.(type) {
	case *ssa.DebugRef:
	case *ssa.Alloc:
		g.instrAlloc(f, i)
	case *ssa.FieldAddr:
		g.instrFieldAddr(f, i)
	case *ssa.Field:
		x := g.val(f, i.X)
		g.setVal(f, i, fmt.Sprintf("(%s %s)", fieldAcc(i.X.Type(), i.Field), x.S))
	case *ssa.IndexAddr:
		g.instrIndexAddr(f, i)
	case *ssa.Index:
		g.instrIndex(f, i)
	case *ssa.UnOp:
		g.instrUnOp(f, i)
	case *ssa.BinOp:
		g.instrBinOp(f, i)
	case *ssa.Store:
		g.instrStore(f, i)
	case *ssa.Slice:
		g.instrSlice(f, i)
	case *ssa.MakeSlice:
		g.instrMakeSlice(f, i)
	case *ssa.MakeMap:
		r := g.alloc(f.st, f.en)
		m := types.Unalias(i.Type()).Underlying().(*types.Map)
		val, has, ln, ks, _ := g.mapComps(m)
		_ = val
		g.set(f.st, has, fmt.Sprintf("(store %s %s ((as const (Array %s Bool)) false))", g.get(f.st, has), r, ks))
		g.set(f.st, ln, fmt.Sprintf("(store %s %s 0)", g.get(f.st, ln), r))
		g.setVal(f, i, r)
	case *ssa.MakeChan:
		g.setVal(f, i, g.alloc(f.st, f.en))
	case *ssa.MakeInterface:
		g.setVal(f, i, g.makeIface(g.val(f, i.X)))
	case *ssa.MakeClosure:
		g.instrMakeClosure(f, i)
	case *ssa.ChangeType:
		x := g.val(f, i.X)
		g.setVal(f, i, x.S)
		if ci, ok := g.resolveFuncValue(x); ok {
			if g.closures == nil {
				g.closures = map[string]closureInfo{}
			}
			g.closures[f.vals[i].S] = ci
		}
	case *ssa.ChangeInterface:
		x := g.val(f, i.X)
		g.setVal(f, i, x.S)
	case *ssa.Convert:
		g.instrConvert(f, i)
	case *ssa.TypeAssert:
		g.instrTypeAssert(f, i)
	case *ssa.Extract:
		tup, ok := f.tuples[i.Tuple]
		if !ok {
			unsupp("extract from unknown tuple %s", i.Tuple.Name())
		}
		g.setVal(f, i, tup[i.Index].S)
	case *ssa.Lookup:
		g.instrLookup(f, i)
	case *ssa.MapUpdate:
		g.instrMapUpdate(f, i)
	case *ssa.Range:
		g.instrRange(f, i)
	case *ssa.Next:
		g.instrNext(f, i)
	case *ssa.Call:
		g.instrCall(f, i, i.Common(), i)
	case *ssa.Defer:
		f.defers = append(f.defers, i)
		g.instrDefer(f, i)
	case *ssa.RunDefers:
		g.instrRunDefers(f, i)
	case *ssa.Send:
		g.instrSend(f, i)
	case *ssa.Go, *ssa.Select:
		unsupp("concurrency instruction %T", ins)
	case *ssa.If:
		c := g.val(f, i.Cond).S
		f.edge[[2]int{b.Index, b.Succs[0].Index}] = g.defFresh(f.prefix+"edge", "Bool", and(f.en, c))
		f.edge[[2]int{b.Index, b.Succs[1].Index}] = g.defFresh(f.prefix+"edge", "Bool", and(f.en, not(c)))
		for k := 0; k < 2; k++ {
			if ci.back[[2]int{b.Index, b.Succs[k].Index}] {
				g.backEdge(f, b, b.Succs[k], f.edge[[2]int{b.Index, b.Succs[k].Index}])
			}
		}
	case *ssa.Jump:
		f.edge[[2]int{b.Index, b.Succs[0].Index}] = f.en
		if ci.back[[2]int{b.Index, b.Succs[0].Index}] {
			g.backEdge(f, b, b.Succs[0], f.en)
		}
	case *ssa.Return:
		var rs []Term
		for _, r := range i.Results {
			rs = append(rs, g.val(f, r))
		}
		f.exits = append(f.exits, Exit{en: f.en, st: f.st.clone(), results: rs, recovered: f.inRecovered})
	case *ssa.Panic:
		pv := g.val(f, i.X)
		f.panics = append(f.panics, Exit{en: f.en, st: f.st.clone(), pval: pv.S, ndefers: len(f.defers), blk: f.curBlock})
	default:
		unsupp("instruction %T", ins)
	}
}

func (g *Gen) instrAlloc(f *Frame, i *ssa.Alloc) {
	el := ptrElem(i.Type())
	r := g.alloc(f.st, f.en)
	if isStruct(el) {
		g.storeStruct(f.st, r, el, g.d.zero(el))
		g.setVal(f, i, r)
		if isPrivateStructAlloc(i) {
			f.privStructs = append(f.privStructs, privStruct{i, r, el})
		}
		return
	}
	if arr, ok := types.Unalias(el).Underlying().(*types.Array); ok {
		// pointer to array == reference to a backing array in the element heap
		comp, es := g.elemComp(arr.Elem())
		g.set(f.st, comp, fmt.Sprintf("(store %s %s ((as const (Array Int %s)) %s))", g.get(f.st, comp), r, es, g.d.zero(arr.Elem())))
		g.setVal(f, i, r)
		return
	}
	loc := g.cellLoc(r, el)
	prevVer := g.get(f.st, loc.comp)
	g.write(f.st, loc, g.d.zero(el))
	g.setVal(f, i, r)
	if g.cellLog == nil {
		g.cellLog = map[string]cellStore{}
	}
	if g.allocCanon == nil {
		g.allocCanon = map[string]string{}
	}
	g.allocCanon[r], g.allocCanon[f.vals[i].S] = r, r
	g.cellLog[f.st.comp[loc.comp]] = cellStore{addr: r, prev: prevVer}
	if isPrivateAlloc(i) {
		f.private = append(f.private, privCell{i, loc.comp, f.vals[i].S})
	}
}

func (g *Gen) instrFieldAddr(f *Frame, i *ssa.FieldAddr) {
	st := ptrElem(i.X.Type())
	if l, ok := f.locs[i.X]; ok {
		f.locs[i] = l.sub(i.Field)
		return
	}
	x := g.val(f, i.X)
	g.safety(f, fmt.Sprintf("(not (= %s 0))", x.S), "nil-deref", i.Pos())
	f.locs[i] = g.fieldLoc(x.S, st, i.Field)
}

func (g *Gen) instrIndexAddr(f *Frame, i *ssa.IndexAddr) {
	idx := g.val(f, i.Index)
	switch xt := types.Unalias(i.X.Type()).Underlying().(type) {
	case *types.Slice:
		x := g.val(f, i.X)
		g.safety(f, fmt.Sprintf("(and (<= 0 %s) (< %s (s_len %s)))", idx.S, idx.S, x.S), "index", i.Pos())
		f.locs[i] = g.elemLoc(x.S, idx.S, xt.Elem())
	case *types.Pointer:
		arr := types.Unalias(xt.Elem()).Underlying().(*types.Array)
		if l, isLoc := f.locs[i.X]; isLoc {
			// &x.arr[i]: element of an array-typed field
			g.safety(f, fmt.Sprintf("(and (<= 0 %s) (< %s %d))", idx.S, idx.S, arr.Len()), "index", i.Pos())
			f.locs[i] = l.subIdx(idx.S)
			return
		}
		base := g.val(f, i.X)
		g.safety(f, fmt.Sprintf("(and (not (= %s 0)) (<= 0 %s) (< %s %d))", base.S, idx.S, idx.S, arr.Len()), "index", i.Pos())
		comp, es := g.elemComp(arr.Elem())
		f.locs[i] = &Loc{kind: "elem", ref: base.S, idx: idx.S, comp: comp, rsort: es, rtype: arr.Elem(), typ: arr.Elem()}
	default:
		unsupp("IndexAddr on %s", i.X.Type())
	}
}

func (g *Gen) instrIndex(f *Frame, i *ssa.Index) {
	x := g.val(f, i.X)
	idx := g.val(f, i.Index)
	switch xt := types.Unalias(i.X.Type()).Underlying().(type) {
	case *types.Basic: // string
		g.safety(f, fmt.Sprintf("(and (<= 0 %s) (< %s (str.len %s)))", idx.S, idx.S, x.S), "index", i.Pos())
		g.setVal(f, i, fmt.Sprintf("(str.to_code (str.at %s %s))", x.S, idx.S))
	case *types.Array:
		g.safety(f, fmt.Sprintf("(and (<= 0 %s) (< %s %d))", idx.S, idx.S, xt.Len()), "index", i.Pos())
		g.setVal(f, i, fmt.Sprintf("(select %s %s)", x.S, idx.S))
	default:
		unsupp("Index on %s", i.X.Type())
	}
}

func (g *Gen) loadLoc(f *Frame, l *Loc) string { return g.read(f.st, l) }

func (g *Gen) storeLoc(f *Frame, l *Loc, v string) { g.write(f.st, l, v) }

func (g *Gen) instrUnOp(f *Frame, i *ssa.UnOp) {
	switch i.Op {
	case token.MUL: // load
		el := ptrElem(i.X.Type())
		if l, ok := f.locs[i.X]; ok {
			g.nextBound = g.loadBound(f.st, l)
			g.setVal(f, i, g.loadLoc(f, l))
			return
		}
		if gl, ok := i.X.(*ssa.Global); ok && !isStruct(el) {
			g.setVal(f, i, g.loadLoc(f, g.locOf(f, gl)))
			if g.w.initNonNil(gl) && g.d.sortOf(el) == "Int" {
				g.trusted["package variable "+gl.Name()+" is assigned only by the package initialiser (non-nil)"] = true
				g.assume(f.en, fmt.Sprintf("(not (= %s 0))", f.vals[i].S))
			}
			return
		}
		x := g.val(f, i.X)
		g.safety(f, fmt.Sprintf("(not (= %s 0))", x.S), "nil-deref", i.Pos())
		if isStruct(el) {
			g.setVal(f, i, g.loadStruct(f.st, x.S, el))
			return
		}
		l := g.cellLoc(x.S, el)
		g.nextBound = g.loadBound(f.st, l)
		g.setVal(f, i, g.read(f.st, l))
		if ci, ok := g.cellFn[g.get(f.st, l.comp)+"|"+x.S]; ok {
			if g.closures == nil {
				g.closures = map[string]closureInfo{}
			}
			g.closures[f.vals[i].S] = ci
		} else if ci, ok := g.cellFnThroughStores(g.get(f.st, l.comp), x.S); ok {
			if g.closures == nil {
				g.closures = map[string]closureInfo{}
			}
			g.closures[f.vals[i].S] = ci
		}
	case token.NOT:
		g.setVal(f, i, not(g.val(f, i.X).S))
	case token.SUB:
		x := g.val(f, i.X)
		if isFloatSort(x.Sort) {
			g.setVal(f, i, fmt.Sprintf("(fp.neg %s)", x.S))
		} else {
			r := fmt.Sprintf("(- %s)", x.S)
			g.arith(f, g.inRange(i.Type(), r), "neg-overflow", i.Pos())
			g.setVal(f, i, r)
		}
	case token.XOR:
		x := g.val(f, i.X)
		if lo, _, ok := intRange(i.Type()); ok && lo == "0" {
			_, hi, _ := intRange(i.Type())
			g.setVal(f, i, fmt.Sprintf("(- %s %s)", hi, x.S))
		} else {
			g.setVal(f, i, fmt.Sprintf("(- (- %s) 1)", x.S))
		}
	case token.ARROW:
		g.instrRecv(f, i)
	default:
		unsupp("unop %s", i.Op)
	}
}

func (g *Gen) instrStore(f *Frame, i *ssa.Store) {
	el := ptrElem(i.Addr.Type())
	v := g.val(f, i.Val)
	if l, ok := f.locs[i.Addr]; ok {
		g.storeLoc(f, l, v.S)
		return
	}
	if gl, ok := i.Addr.(*ssa.Global); ok && !isStruct(el) {
		g.storeLoc(f, g.locOf(f, gl), v.S)
		return
	}
	x := g.val(f, i.Addr)
	g.safety(f, fmt.Sprintf("(not (= %s 0))", x.S), "nil-deref", i.Pos())
	if isStruct(el) {
		g.storeStruct(f.st, x.S, el, v.S)
		return
	}
	l := g.cellLoc(x.S, el)
	prevVer := g.get(f.st, l.comp)
	g.write(f.st, l, v.S)
	ci, ok := g.resolveFuncValue(v)
	if ok {
		if g.cellFn == nil {
			g.cellFn = map[string]closureInfo{}
		}
		g.cellFn[f.st.comp[l.comp]+"|"+x.S] = ci
	}
	if g.cellLog == nil {
		g.cellLog = map[string]cellStore{}
	}
	g.cellLog[f.st.comp[l.comp]] = cellStore{addr: x.S, prev: prevVer, ci: ci, ok: ok}
}

// cellStore: the store that produced one version of a cell component.
type cellStore struct {
	addr, prev string
	ci         closureInfo
	ok         bool
}

// cellFnThroughStores: the function value last stored at cell addr, looking back through stores to OTHER cells. Two
// cells are known to be different when both addresses are results of different allocations made in this run (each is
// the allocation counter plus one at a different point); anything else ends the search.
func (g *Gen) cellFnThroughStores(ver, addr string) (closureInfo, bool) {
	a, aAlloc := g.allocCanon[addr]
	for k := 0; k < 64; k++ {
		e, found := g.cellLog[ver]
		if !found {
			return closureInfo{}, false
		}
		if e.addr == addr {
			return e.ci, e.ok
		}
		b, bAlloc := g.allocCanon[e.addr]
		if !aAlloc || !bAlloc {
			return closureInfo{}, false
		}
		if a == b {
			return e.ci, e.ok
		}
		ver = e.prev
	}
	return closureInfo{}, false
}

func goDiv(a, b string) string {
	return fmt.Sprintf("(ite (>= %[1]s 0) (div %[1]s %[2]s) (- (div (- %[1]s) %[2]s)))", a, b)
}
func goRem(a, b string) string {
	return fmt.Sprintf("(- %s (* %s %s))", a, b, goDiv(a, b))
}

func (g *Gen) instrBinOp(f *Frame, i *ssa.BinOp) {
	x, y := g.val(f, i.X), g.val(f, i.Y)
	srt := x.Sort
	var r string
	switch {
	case srt == "Int":
		switch i.Op {
		case token.ADD:
			r = fmt.Sprintf("(+ %s %s)", x.S, y.S)
			g.arith(f, g.inRange(i.Type(), r), "add-overflow", i.Pos())
		case token.SUB:
			r = fmt.Sprintf("(- %s %s)", x.S, y.S)
			g.arith(f, g.inRange(i.Type(), r), "sub-overflow", i.Pos())
		case token.MUL:
			r = fmt.Sprintf("(* %s %s)", x.S, y.S)
			g.arith(f, g.inRange(i.Type(), r), "mul-overflow", i.Pos())
		case token.QUO:
			g.safety(f, fmt.Sprintf("(not (= %s 0))", y.S), "div-by-zero", i.Pos())
			r = goDiv(x.S, y.S)
		case token.REM:
			g.safety(f, fmt.Sprintf("(not (= %s 0))", y.S), "div-by-zero", i.Pos())
			r = goRem(x.S, y.S)
		case token.EQL:
			r = fmt.Sprintf("(= %s %s)", x.S, y.S)
		case token.NEQ:
			r = fmt.Sprintf("(not (= %s %s))", x.S, y.S)
		case token.LSS:
			r = fmt.Sprintf("(< %s %s)", x.S, y.S)
		case token.LEQ:
			r = fmt.Sprintf("(<= %s %s)", x.S, y.S)
		case token.GTR:
			r = fmt.Sprintf("(> %s %s)", x.S, y.S)
		case token.GEQ:
			r = fmt.Sprintf("(>= %s %s)", x.S, y.S)
		case token.SHL, token.SHR, token.AND, token.OR, token.XOR, token.AND_NOT:
			fnm := map[token.Token]string{token.SHL: "go_shl", token.SHR: "go_shr", token.AND: "go_and", token.OR: "go_or", token.XOR: "go_xor", token.AND_NOT: "go_andnot"}[i.Op]
			g.d.add("bit:"+fnm, fmt.Sprintf("(declare-fun %s (Int Int) Int)", fnm))
			r = fmt.Sprintf("(%s %s %s)", fnm, x.S, y.S)
			g.setVal(f, i, r)
			g.assume(f.en, g.inRange(i.Type(), f.vals[i].S))
			return
		default:
			unsupp("int binop %s", i.Op)
		}
	case isFloatSort(srt):
		op := map[token.Token]string{token.ADD: "fadd", token.SUB: "fsub", token.MUL: "fmul", token.QUO: "fdiv",
			token.EQL: "fp.eq", token.LSS: "fp.lt", token.LEQ: "fp.leq", token.GTR: "fp.gt", token.GEQ: "fp.geq"}[i.Op]
		if i.Op == token.NEQ {
			r = fmt.Sprintf("(not (fp.eq %s %s))", x.S, y.S)
		} else if op != "" {
			r = fmt.Sprintf("(%s %s %s)", op, x.S, y.S)
		} else {
			unsupp("float binop %s", i.Op)
		}
	case srt == "Bool":
		switch i.Op {
		case token.EQL:
			r = fmt.Sprintf("(= %s %s)", x.S, y.S)
		case token.NEQ:
			r = fmt.Sprintf("(not (= %s %s))", x.S, y.S)
		case token.AND, token.LAND:
			r = and(x.S, y.S)
		case token.OR, token.LOR:
			r = or(x.S, y.S)
		default:
			unsupp("bool binop %s", i.Op)
		}
	case srt == "String":
		switch i.Op {
		case token.ADD:
			r = fmt.Sprintf("(str.++ %s %s)", x.S, y.S)
		case token.EQL:
			r = fmt.Sprintf("(= %s %s)", x.S, y.S)
		case token.NEQ:
			r = fmt.Sprintf("(not (= %s %s))", x.S, y.S)
		case token.LSS:
			r = fmt.Sprintf("(str.< %s %s)", x.S, y.S)
		case token.LEQ:
			r = fmt.Sprintf("(str.<= %s %s)", x.S, y.S)
		case token.GTR:
			r = fmt.Sprintf("(str.< %s %s)", y.S, x.S)
		case token.GEQ:
			r = fmt.Sprintf("(str.<= %s %s)", y.S, x.S)
		default:
			unsupp("string binop %s", i.Op)
		}
	default:
		// pointers, interfaces, structs: equality only
		switch i.Op {
		case token.EQL:
			r = fmt.Sprintf("(= %s %s)", x.S, y.S)
		case token.NEQ:
			r = fmt.Sprintf("(not (= %s %s))", x.S, y.S)
		default:
			unsupp("binop %s on %s", i.Op, srt)
		}
		if srt == "Slice" {
			// only comparison with nil is legal
			other := y
			if _, isC := i.X.(*ssa.Const); isC {
				other = x
				x = y
			}
			_ = other
			r = fmt.Sprintf("(= (s_ref %s) 0)", x.S)
			if i.Op == token.NEQ {
				r = not(r)
			}
		}
	}
	g.setVal(f, i, r)
}

func (g *Gen) instrSlice(f *Frame, i *ssa.Slice) {
	x := g.val(f, i.X)
	lo := "0"
	if i.Low != nil {
		lo = g.val(f, i.Low).S
	}
	switch types.Unalias(i.X.Type()).Underlying().(type) {
	case *types.Basic: // string
		hi := fmt.Sprintf("(str.len %s)", x.S)
		if i.High != nil {
			hi = g.val(f, i.High).S
		}
		g.safety(f, fmt.Sprintf("(and (<= 0 %s) (<= %s %s) (<= %s (str.len %s)))", lo, lo, hi, hi, x.S), "slice-bounds", i.Pos())
		g.setVal(f, i, fmt.Sprintf("(str.substr %s %s (- %s %s))", x.S, lo, hi, lo))
	case *types.Slice:
		hi := fmt.Sprintf("(s_len %s)", x.S)
		if i.High != nil {
			hi = g.val(f, i.High).S
		}
		mx := fmt.Sprintf("(s_cap %s)", x.S)
		if i.Max != nil {
			mx = g.val(f, i.Max).S
			g.safety(f, fmt.Sprintf("(and (<= %s %s) (<= %s (s_cap %s)))", hi, mx, mx, x.S), "slice-bounds", i.Pos())
		}
		g.safety(f, fmt.Sprintf("(and (<= 0 %s) (<= %s %s) (<= %s (s_cap %s)))", lo, lo, hi, hi, x.S), "slice-bounds", i.Pos())
		g.setVal(f, i, fmt.Sprintf("(mk_slice (s_ref %[1]s) (+ (s_off %[1]s) %[2]s) (- %[3]s %[2]s) (- %[4]s %[2]s))", x.S, lo, hi, mx))
	case *types.Pointer: // pointer to array: the ref is the backing array
		arr := types.Unalias(ptrElem(i.X.Type())).Underlying().(*types.Array)
		hi := fmt.Sprint(arr.Len())
		if i.High != nil {
			hi = g.val(f, i.High).S
		}
		g.safety(f, fmt.Sprintf("(and (not (= %s 0)) (<= 0 %s) (<= %s %s) (<= %s %d))", x.S, lo, lo, hi, hi, arr.Len()), "slice-bounds", i.Pos())
		g.setVal(f, i, fmt.Sprintf("(mk_slice %s %s (- %s %s) (- %d %s))", x.S, lo, hi, lo, arr.Len(), lo))
	default:
		unsupp("slice of %s", i.X.Type())
	}
}

func (g *Gen) instrMakeSlice(f *Frame, i *ssa.MakeSlice) {
	ln, cp := g.val(f, i.Len), g.val(f, i.Cap)
	g.safety(f, fmt.Sprintf("(and (<= 0 %s) (<= %s %s))", ln.S, ln.S, cp.S), "makeslice-len", i.Pos())
	r := g.alloc(f.st, f.en)
	el := types.Unalias(i.Type()).Underlying().(*types.Slice).Elem()
	comp, es := g.elemComp(el)
	g.set(f.st, comp, fmt.Sprintf("(store %s %s ((as const (Array Int %s)) %s))", g.get(f.st, comp), r, es, g.d.zero(el)))
	g.setVal(f, i, fmt.Sprintf("(mk_slice %s 0 %s %s)", r, ln.S, cp.S))
}

func (g *Gen) makeIface(x Term) string {
	if _, isI := types.Unalias(x.T).Underlying().(*types.Interface); isI {
		return x.S
	}
	tag := g.d.tagOf(x.T)
	box, _, _ := g.d.boxFns(x.T)
	return fmt.Sprintf("(mk_iface %s (%s %s))", tag, box, x.S)
}

func (g *Gen) unboxIface(x string, t types.Type) string {
	_, unbox, _ := g.d.boxFns(t)
	return fmt.Sprintf("(%s (i_box %s))", unbox, x)
}

// implementsTags: disjunction over known concrete types in the module implementing iface
func (g *Gen) ifaceHolds(x string, it *types.Interface) string {
	if it.Empty() {
		return fmt.Sprintf("(not (= (i_tag %s) 0))", x)
	}
	var alts []string
	for _, t := range g.w.concreteTypes() {
		if types.Implements(t, it) {
			alts = append(alts, fmt.Sprintf("(= (i_tag %s) %s)", x, g.d.tagOf(t)))
		}
	}
	// external types may implement it too: unknown tags allowed via an uninterpreted predicate
	p := "impl$" + typeName(it)
	g.d.add("impl:"+p, fmt.Sprintf("(declare-fun %s (Int) Bool)", p))
	alts = append(alts, fmt.Sprintf("(%s (i_tag %s))", p, x))
	return and(fmt.Sprintf("(not (= (i_tag %s) 0))", x), or(alts...))
}

func (g *Gen) instrTypeAssert(f *Frame, i *ssa.TypeAssert) {
	x := g.val(f, i.X)
	var ok, v string
	if it, isI := types.Unalias(i.AssertedType).Underlying().(*types.Interface); isI {
		ok = g.ifaceHolds(x.S, it)
		v = x.S
	} else {
		ok = fmt.Sprintf("(= (i_tag %s) %s)", x.S, g.d.tagOf(i.AssertedType))
		v = g.unboxIface(x.S, i.AssertedType)
	}
	if i.CommaOk {
		okn := g.defFresh(f.name(i)+".ok", "Bool", ok)
		vs := g.d.sortOf(i.AssertedType)
		vn := g.defFresh(f.name(i)+".v", vs, fmt.Sprintf("(ite %s %s %s)", okn, v, g.d.zero(i.AssertedType)))
		f.tuples[i] = []Term{{vn, vs, i.AssertedType}, {okn, "Bool", types.Typ[types.Bool]}}
		return
	}
	g.safety(f, ok, "type-assert", i.Pos())
	g.setVal(f, i, v)
}

func (g *Gen) instrConvert(f *Frame, i *ssa.Convert) {
	x := g.val(f, i.X)
	dst := g.d.sortOf(i.Type())
	switch {
	case x.Sort == "Int" && dst == "Int":
		lo, hi, ok := intRange(i.Type())
		if !ok {
			g.setVal(f, i, x.S)
			return
		}
		in := fmt.Sprintf("(and (<= %s %s) (<= %s %s))", lo, x.S, x.S, hi)
		slo, shi, sok := intRange(i.X.Type())
		if sok && rangeWithin(slo, shi, lo, hi) {
			g.setVal(f, i, x.S)
			return
		}
		// wrap-around semantics, exact
		g.arith(f, in, "conv-range", i.Pos())
		g.setVal(f, i, x.S)
	case x.Sort == "Int" && dst == "F64":
		g.setVal(f, i, fmt.Sprintf("((_ to_fp 11 53) RNE (to_real %s))", x.S))
	case x.Sort == "Int" && dst == "F32":
		g.setVal(f, i, fmt.Sprintf("((_ to_fp 8 24) RNE (to_real %s))", x.S))
	case x.Sort == "F64" && dst == "Int":
		lo, hi, _ := intRange(i.Type())
		tr := fmt.Sprintf("(to_int (fp.to_real (fp.roundToIntegral RTZ %s)))", x.S)
		g.safety(f, fmt.Sprintf("(and (not (fp.isNaN %[1]s)) (not (fp.isInfinite %[1]s)) (<= %[2]s %[3]s) (<= %[3]s %[4]s))", x.S, lo, tr, hi), "float-to-int", i.Pos())
		g.setVal(f, i, tr)
	case x.Sort == "F32" && dst == "F64":
		g.setVal(f, i, fmt.Sprintf("((_ to_fp 11 53) RNE %s)", x.S))
	case x.Sort == "F64" && dst == "F32":
		g.setVal(f, i, fmt.Sprintf("((_ to_fp 8 24) RNE %s)", x.S))
	case x.Sort == dst && dst != "Slice":
		g.setVal(f, i, x.S)
	case x.Sort == "Int" && dst == "String":
		g.d.add("fn:rune_to_str", "(declare-fun rune_to_str (Int) String)\n(assert (forall ((c Int)) (! (=> (and (<= 0 c) (< c 128)) (= (rune_to_str c) (str.from_code c))) :pattern ((rune_to_str c)))))")
		g.setVal(f, i, fmt.Sprintf("(rune_to_str %s)", x.S))
	case x.Sort == "String" && dst == "Slice":
		// []byte(s) or []rune(s): fresh backing array
		r := g.alloc(f.st, f.en)
		el := types.Unalias(i.Type()).Underlying().(*types.Slice).Elem()
		comp, _ := g.elemComp(el)
		if b, ok := types.Unalias(el).Underlying().(*types.Basic); ok && b.Kind() == types.Uint8 {
			arr := g.fresh("bytes")
			g.declare(arr, "(Array Int Int)")
			g.emit("(assert (forall ((k Int)) (! (=> (and (<= 0 k) (< k (str.len %[2]s))) (= (select %[1]s k) (str.to_code (str.at %[2]s k)))) :pattern ((select %[1]s k)))))", arr, x.S)
			g.set(f.st, comp, fmt.Sprintf("(store %s %s %s)", g.get(f.st, comp), r, arr))
			g.setVal(f, i, fmt.Sprintf("(mk_slice %s 0 (str.len %s) (str.len %s))", r, x.S, x.S))
		} else {
			arr := g.fresh("runes")
			g.declare(arr, "(Array Int Int)")
			n := g.fresh("nrunes")
			g.declare(n, "Int")
			g.assume("true", fmt.Sprintf("(and (<= 0 %s) (<= %s (str.len %s)))", n, n, x.S))
			g.set(f.st, comp, fmt.Sprintf("(store %s %s %s)", g.get(f.st, comp), r, arr))
			g.setVal(f, i, fmt.Sprintf("(mk_slice %s 0 %s %s)", r, n, n))
		}
	case x.Sort == "Slice" && dst == "String":
		el := types.Unalias(i.X.Type()).Underlying().(*types.Slice).Elem()
		comp, _ := g.elemComp(el)
		s := g.fresh("strof")
		g.declare(s, "String")
		if b, ok := types.Unalias(el).Underlying().(*types.Basic); ok && b.Kind() == types.Uint8 {
			g.assume(f.en, fmt.Sprintf("(= (str.len %s) (s_len %s))", s, x.S))
			g.emit("(assert (=> %[5]s (forall ((k Int)) (! (=> (and (<= 0 k) (< k (s_len %[2]s))) (= (str.to_code (str.at %[1]s k)) (select (select %[3]s (s_ref %[2]s)) (eidx (s_off %[2]s) k)))) :pattern ((str.at %[1]s k))))))%[4]s", s, x.S, g.get(f.st, comp), "", f.en)
		}
		g.setVal(f, i, s)
	default:
		unsupp("convert %s -> %s", i.X.Type(), i.Type())
	}
}

func rangeWithin(slo, shi, lo, hi string) bool {
	p := func(s string) (neg bool, v string) {
		if strings.HasPrefix(s, "(- ") {
			return true, strings.TrimSuffix(strings.TrimPrefix(s, "(- "), ")")
		}
		return false, s
	}
	cmp := func(a, b string) int { // compare signed decimal strings
		an, av := p(a)
		bn, bv := p(b)
		if an != bn {
			if an {
				return -1
			}
			return 1
		}
		c := 0
		if len(av) != len(bv) {
			if len(av) < len(bv) {
				c = -1
			} else {
				c = 1
			}
		} else {
			c = strings.Compare(av, bv)
		}
		if an {
			return -c
		}
		return c
	}
	return cmp(slo, lo) >= 0 && cmp(shi, hi) <= 0
}

func (g *Gen) instrLookup(f *Frame, i *ssa.Lookup) {
	x := g.val(f, i.X)
	k := g.val(f, i.Index)
	switch xt := types.Unalias(i.X.Type()).Underlying().(type) {
	case *types.Map:
		val, has, _, _, _ := g.mapComps(xt)
		h := fmt.Sprintf("(and (not (= %s 0)) (select (select %s %s) %s))", x.S, g.get(f.st, has), x.S, k.S)
		v := fmt.Sprintf("(ite %s (select (select %s %s) %s) %s)", h, g.get(f.st, val), x.S, k.S, g.d.zero(xt.Elem()))
		if ld, ok := i.X.(*ssa.UnOp); ok {
			if gl, ok := ld.X.(*ssa.Global); ok {
				if hf, vf, ok := g.tableFuncs(gl); ok {
					// immutable table: the lookup is a function of the key
					h = fmt.Sprintf("(%s %s)", hf, k.S)
					v = fmt.Sprintf("(%s %s)", vf, k.S)
				}
			}
		}
		if i.CommaOk {
			okn := g.defFresh(f.name(i)+".ok", "Bool", h)
			vs := g.d.sortOf(xt.Elem())
			vn := g.defFresh(f.name(i)+".v", vs, v)
			f.tuples[i] = []Term{{vn, vs, xt.Elem()}, {okn, "Bool", types.Typ[types.Bool]}}
			g.typeFacts(f.en, f.tuples[i][0], g.now(f.st), false)
			return
		}
		g.setVal(f, i, v)
	case *types.Basic: // string index
		g.safety(f, fmt.Sprintf("(and (<= 0 %s) (< %s (str.len %s)))", k.S, k.S, x.S), "index", i.Pos())
		g.setVal(f, i, fmt.Sprintf("(str.to_code (str.at %s %s))", x.S, k.S))
	default:
		unsupp("lookup on %s", i.X.Type())
	}
}

func (g *Gen) instrMapUpdate(f *Frame, i *ssa.MapUpdate) {
	m := g.val(f, i.Map)
	k, v := g.val(f, i.Key), g.val(f, i.Value)
	mt := types.Unalias(i.Map.Type()).Underlying().(*types.Map)
	val, has, ln, _, _ := g.mapComps(mt)
	g.safety(f, fmt.Sprintf("(not (= %s 0))", m.S), "nil-map-write", i.Pos())
	hv, hh, hl := g.get(f.st, val), g.get(f.st, has), g.get(f.st, ln)
	g.frameWrite(val, m.S)
	g.set(f.st, ln, fmt.Sprintf("(store %[1]s %[2]s (ite (select (select %[3]s %[2]s) %[4]s) (select %[1]s %[2]s) (+ (select %[1]s %[2]s) 1)))", hl, m.S, hh, k.S))
	g.set(f.st, val, fmt.Sprintf("(store %[1]s %[2]s (store (select %[1]s %[2]s) %[3]s %[4]s))", hv, m.S, k.S, v.S))
	g.set(f.st, has, fmt.Sprintf("(store %[1]s %[2]s (store (select %[1]s %[2]s) %[3]s true))", hh, m.S, k.S))
}

func (g *Gen) instrRange(f *Frame, i *ssa.Range) {
	// iterator: a fresh ref with a position cell
	r := g.alloc(f.st, f.en)
	g.compDecl("IT", "(Array Int Int)")
	g.set(f.st, "IT", fmt.Sprintf("(store %s %s 0)", g.get(f.st, "IT"), r))
	n := g.define(f.name(i), "Int", r)
	f.vals[i] = Term{n, "Int", nil}
	if mt, ok := types.Unalias(i.X.Type()).Underlying().(*types.Map); ok {
		// ghost: the set of keys already produced by this iterator
		vc, ks := g.visitedComp(mt)
		g.set(f.st, vc, fmt.Sprintf("(store %s %s ((as const (Array %s Bool)) false))", g.get(f.st, vc), r, ks))
	}
}

// visitedComp: per map-iterator ghost set of the keys already produced.
func (g *Gen) visitedComp(mt *types.Map) (comp, ksort string) {
	ksort = g.d.sortOf(mt.Key())
	comp = "ITV$" + compTypeName(mt.Key())
	g.compDecl(comp, "(Array Int (Array "+ksort+" Bool))")
	return
}


func (g *Gen) instrNext(f *Frame, i *ssa.Next) {
	rng, ok := i.Iter.(*ssa.Range)
	if !ok {
		unsupp("next on non-range")
	}
	it := g.val(f, rng)
	x := g.val(f, rng.X)
	pos := fmt.Sprintf("(select %s %s)", g.get(f.st, "IT"), it.S)
	if i.IsString {
		g.d.add("fn:utf8", "(declare-fun utf8_rune (String Int) Int)\n(declare-fun utf8_width (String Int) Int)")
		p := g.defFresh("itpos", "Int", pos)
		g.assume(f.en, fmt.Sprintf("(and (<= 0 %s) (<= %s (str.len %s)))", p, p, x.S))
		okn := g.defFresh(f.name(i)+".ok", "Bool", fmt.Sprintf("(< %s (str.len %s))", p, x.S))
		rn := g.defFresh(f.name(i)+".r", "Int", fmt.Sprintf("(utf8_rune %s %s)", x.S, p))
		// UTF-8 decoding at this position (ground instances; no quantified string axioms): 1..4 bytes within the
		// string, a byte below 0x80 is itself, anything else decodes to a rune >= 0x80
		wd := fmt.Sprintf("(utf8_width %s %s)", x.S, p)
		g.assume(and(f.en, okn), fmt.Sprintf("(and (<= 1 %[1]s) (<= %[1]s 4) (<= (+ %[2]s %[1]s) (str.len %[3]s)) (<= 0 %[4]s) (<= %[4]s 1114111))", wd, p, x.S, rn))
		g.assume(and(f.en, okn), fmt.Sprintf("(ite (< (str.to_code (str.at %[1]s %[2]s)) 128) (and (= %[3]s (str.to_code (str.at %[1]s %[2]s))) (= %[4]s 1)) (>= %[3]s 128))", x.S, p, rn, wd))
		g.set(f.st, "IT", fmt.Sprintf("(store %s %s (ite %s (+ %s (utf8_width %s %s)) %s))", g.get(f.st, "IT"), it.S, okn, p, x.S, p, p))
		f.tuples[i] = []Term{{okn, "Bool", types.Typ[types.Bool]}, {p, "Int", types.Typ[types.Int]}, {rn, "Int", types.Typ[types.Rune]}}
		return
	}
	mt := types.Unalias(rng.X.Type()).Underlying().(*types.Map)
	val, has, _, ks, vs := g.mapComps(mt)
	okn := g.fresh(f.name(i) + ".ok")
	g.declare(okn, "Bool")
	kn := g.fresh(f.name(i) + ".k")
	g.declare(kn, ks)
	g.assume(f.en, fmt.Sprintf("(=> %s (and (not (= %s 0)) (select (select %s %s) %s)))", okn, x.S, g.get(f.st, has), x.S, kn))
	// every key is produced exactly once: the key is new, and the iteration ends only when all keys were produced
	// (the loop body is assumed not to insert into or delete from the map it ranges over)
	vc, _ := g.visitedComp(mt)
	vis := fmt.Sprintf("(select %s %s)", g.get(f.st, vc), it.S)
	g.assume(f.en, fmt.Sprintf("(=> %s (not (select %s %s)))", okn, vis, kn))
	g.nfresh++
	qk := fmt.Sprintf("mk%d", g.nfresh)
	g.assume(f.en, fmt.Sprintf("(=> (not %s) (forall ((%s %s)) (=> (and (not (= %s 0)) (select (select %s %s) %s)) (select %s %s))))", okn, qk, ks, x.S, g.get(f.st, has), x.S, qk, vis, qk))
	g.set(f.st, vc, fmt.Sprintf("(store %s %s (ite %s (store %s %s true) %s))", g.get(f.st, vc), it.S, okn, vis, kn, vis))
	vn := g.defFresh(f.name(i)+".v", vs, fmt.Sprintf("(select (select %s %s) %s)", g.get(f.st, val), x.S, kn))
	f.tuples[i] = []Term{{okn, "Bool", types.Typ[types.Bool]}, {kn, ks, mt.Key()}, {vn, vs, mt.Elem()}}
	g.typeFacts(and(f.en, okn), f.tuples[i][1], g.now(f.st), true)
	g.typeFacts(and(f.en, okn), f.tuples[i][2], g.now(f.st), true)
}

// chanComps: ghost history of a channel: number of values sent and the last value sent.
func (g *Gen) chanComps(ct *types.Chan) (cnt, last string) {
	es := g.d.sortOf(ct.Elem())
	cnt, last = "CHN", "CHL$"+sanitize(es)
	g.compDecl(cnt, "(Array Int Int)")
	g.compDecl(last, "(Array Int "+es+")")
	return
}

// instrSend: a send on an unbuffered channel completes when a receiver takes the value; the ghost history records it.
// (Blocking forever is not modelled: liveness of the receiver is outside this family of technique.)
func (g *Gen) instrSend(f *Frame, i *ssa.Send) {
	ch := g.val(f, i.Chan)
	x := g.val(f, i.X)
	ct := types.Unalias(i.Chan.Type()).Underlying().(*types.Chan)
	cnt, last := g.chanComps(ct)
	g.safety(f, fmt.Sprintf("(not (= %s 0))", ch.S), "nil-chan-send", i.Pos())
	g.frameWrite(cnt, ch.S)
	g.set(f.st, cnt, fmt.Sprintf("(store %[1]s %[2]s (+ (select %[1]s %[2]s) 1))", g.get(f.st, cnt), ch.S))
	g.frameWrite(last, ch.S)
	g.set(f.st, last, fmt.Sprintf("(store %s %s %s)", g.get(f.st, last), ch.S, x.S))
}

// recvComp: ghost count of values received from a channel; chan_item(ch, k) is the k-th value sent on it
// (an unbuffered or FIFO channel delivers values in the order they were sent).
func (g *Gen) recvComp(ct *types.Chan) (cnt, itemFn string) {
	es := g.d.sortOf(ct.Elem())
	cnt = "CHR"
	g.compDecl(cnt, "(Array Int Int)")
	itemFn = "chan_item$" + compTypeName(ct.Elem())
	g.d.add("fn:"+itemFn, fmt.Sprintf("(declare-fun %s (Int Int) %s)", itemFn, es))
	return
}

// instrRecv: v := <-ch (blocking forever is not modelled; a closed channel yields the zero value with ok false)
func (g *Gen) instrRecv(f *Frame, i *ssa.UnOp) {
	ch := g.val(f, i.X)
	ct := types.Unalias(i.X.Type()).Underlying().(*types.Chan)
	cnt, itemFn := g.recvComp(ct)
	k := fmt.Sprintf("(select %s %s)", g.get(f.st, cnt), ch.S)
	v := g.defFresh(f.name(i)+".recv", g.d.sortOf(ct.Elem()), fmt.Sprintf("(%s %s %s)", itemFn, ch.S, k))
	g.frameWrite(cnt, ch.S)
	g.set(f.st, cnt, fmt.Sprintf("(store %[1]s %[2]s (+ (select %[1]s %[2]s) 1))", g.get(f.st, cnt), ch.S))
	if i.CommaOk {
		okn := g.fresh(f.name(i) + ".ok")
		g.declare(okn, "Bool")
		// ok == false: the channel was closed and everything sent on it has been received (ghost "drained" flag)
		g.compDecl("CHD", "(Array Int Bool)")
		g.frameWrite("CHD", ch.S)
		g.set(f.st, "CHD", fmt.Sprintf("(store %[1]s %[2]s (or (select %[1]s %[2]s) (not %[3]s)))", g.get(f.st, "CHD"), ch.S, okn))
		f.tuples[i] = []Term{{v, g.d.sortOf(ct.Elem()), ct.Elem()}, {okn, "Bool", types.Typ[types.Bool]}}
		return
	}
	g.setVal(f, i, v)
}
