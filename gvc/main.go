package main

import (
	"strconv"
	"encoding/json"
	"fmt"
	"os"
	"strings"
	"time"
)

func main() {
	if len(os.Args) < 2 {
		fmt.Fprintln(os.Stderr, "usage: gvc <ssadump|funcs|check|...> ...")
		os.Exit(2)
	}
	switch os.Args[1] {
	case "funcs":
		t0 := time.Now()
		w, err := loadWorld(nil)
		if err != nil {
			fatal(err)
		}
		defer w.Close()
		for _, k := range w.funcNames() {
			if len(os.Args) > 2 && !strings.Contains(k, os.Args[2]) {
				continue
			}
			fmt.Println(k)
		}
		fmt.Fprintf(os.Stderr, "loaded in %v, %d funcs\n", time.Since(t0), len(w.Funcs))
	case "ssadump":
		w, err := loadWorld(nil)
		if err != nil {
			fatal(err)
		}
		defer w.Close()
		for _, name := range os.Args[2:] {
			fn := w.Funcs[name]
			if fn == nil {
				fmt.Printf("no such function %s\n", name)
				continue
			}
			fn.WriteTo(os.Stdout)
		}
	case "vc":
		cmdVC(os.Args[2:])
	case "grammar-dump":
		src, err := os.ReadFile(os.Args[2])
		if err != nil {
			fatal(err)
		}
		rules, err := parseYaccRules(string(src))
		if err != nil {
			fatal(err)
		}
		out := map[string][]string{}
		for nt, alts := range rules {
			for _, a := range alts {
				out[nt] = append(out[nt], altString(a))
			}
		}
		b, _ := json.MarshalIndent(out, "", " ")
		fmt.Println(string(b))
	case "relock":
		cmdRelock(os.Args[2:])
	case "check":
		os.Exit(cmdCheck(os.Args[2:]))
	default:
		fatal(fmt.Errorf("unknown command %s", os.Args[1]))
	}
}

func fatal(err error) {
	fmt.Fprintln(os.Stderr, "gvc:", err)
	os.Exit(2)
}

func cmdVC(args []string) {
	w, err := loadWorld(nil)
	if err != nil {
		fatal(err)
	}
	defer w.Close()
	contracts, _, err := parseContracts(w.RepoDir)
	if err != nil {
		fatal(err)
	}
	specs, err := loadSpecs(verifDir()+"/spec", nil)
	if err != nil {
		fatal(err)
	}
	keep := os.Getenv("GVC_KEEP") != ""
	tmo := 10000
	if v, err := strconv.Atoi(os.Getenv("GVC_TIMEOUT_MS")); err == nil && v > 0 { // development aid
		tmo = v
	}
	for _, key := range args {
		fn := w.Funcs[key]
		if fn == nil {
			fmt.Printf("%s: no such function\n", key)
			continue
		}
		g := newGen(w, specs, contracts)
		vc := g.verifyFunction(fn, contracts[key])
		if vc.Err != nil {
			fmt.Printf("%s: %v\n", key, vc.Err)
			continue
		}
		dir := w.Scratch
		if keep {
			dir = "/var/tmp"
		}
		res, errs := solveVC(vc, dir, tmo, false)
		if errs != "" {
			fmt.Printf("  solver errors: %s\n", errs)
		}
		for _, o := range vc.Obls {
			r := res[o.Offset]
			fmt.Printf("%-10s %-8s %-7s %-50s %s  [%s]\n", o.Kind, r.Status, r.Solver, o.Name, o.Pos, o.Descr)
			if m := os.Getenv("GVC_MODEL"); m != "" && m == o.Name {
				fmt.Println(modelFor(vc, o, dir, 10000))
			}
		}
		fmt.Printf("  inlined: %v\n  trusted: %v\n  havocked: %v\n", vc.Inlined, vc.Trusted, vc.Havocked)
	}
}
