package main

import (
	"fmt"
	"go/types"
	"hash/fnv"
	"sort"
	"strings"
)

// Term is an SMT term with its sort and (optionally) the Go type it models.
type Term struct {
	S    string
	Sort string
	T    types.Type
}

const prelude = `(define-sort F64 () (_ FloatingPoint 11 53))
(define-sort F32 () (_ FloatingPoint 8 24))
;;FPDEFS
(declare-fun eidx (Int Int) Int)
(assert (forall ((o Int) (k Int)) (! (= (eidx o k) (+ o k)) :pattern ((eidx o k)))))
`

const fpPrecise = `(define-fun fadd ((a F64) (b F64)) F64 (fp.add RNE a b))
(define-fun fsub ((a F64) (b F64)) F64 (fp.sub RNE a b))
(define-fun fmul ((a F64) (b F64)) F64 (fp.mul RNE a b))
(define-fun fdiv ((a F64) (b F64)) F64 (fp.div RNE a b))
`

// abstraction: the four operations are uninterpreted (sound: any proof also holds for the IEEE functions)
const fpAbstract = `(declare-fun fadd (F64 F64) F64)
(declare-fun fsub (F64 F64) F64)
(declare-fun fmul (F64 F64) F64)
(declare-fun fdiv (F64 F64) F64)
`

const nilSlice = "(mk_slice 0 0 0 0)"
const nilIface = "(mk_iface 0 (bx$Int 0))"


// Decls collects on-demand declarations (datatypes, tags, box functions, heap components).
type Decls struct {
	order []string
	text  map[string]string
	tags  map[string]int
	tagTypes map[string]types.Type
	// struct datatypes already emitted, by sort name
	structs map[string]*types.Struct
	sdecl   map[string]string // struct sort -> constructor declaration
	sorder  []string
	boxes   map[string]bool // payload sorts with a Box constructor
	border  []string
	ntag    int
}

func newDecls() *Decls {
	return &Decls{text: map[string]string{}, tags: map[string]int{}, tagTypes: map[string]types.Type{}, structs: map[string]*types.Struct{}, sdecl: map[string]string{}, boxes: map[string]bool{}, ntag: 0}
}

func (d *Decls) add(key, text string) {
	if _, ok := d.text[key]; ok {
		return
	}
	d.text[key] = text
	d.order = append(d.order, key)
}

func (d *Decls) has(key string) bool { _, ok := d.text[key]; return ok }

func sanitize(s string) string {
	var b strings.Builder
	for _, r := range s {
		switch {
		case r >= 'a' && r <= 'z', r >= 'A' && r <= 'Z', r >= '0' && r <= '9', r == '_', r == '.', r == '$':
			b.WriteRune(r)
		case r == '*':
			b.WriteString("ptr.")
		case r == '[':
			b.WriteString("_L")
		case r == ']':
			b.WriteString("R_")
		case r == '/':
			b.WriteString("_")
		default:
			b.WriteString("_")
		}
	}
	return b.String()
}

// typeName gives a stable short name for a Go type, used in tags and datatype names.
func typeName(t types.Type) string {
	switch t := t.(type) {
	case *types.Named:
		obj := t.Obj()
		n := obj.Name()
		if obj.Pkg() != nil {
			p := obj.Pkg().Path()
			if strings.HasPrefix(p, modPath) {
				n = relPkg(p) + "." + n
			} else {
				n = p[strings.LastIndex(p, "/")+1:] + "." + n
			}
		}
		if ta := t.TypeArgs(); ta != nil && ta.Len() > 0 {
			var as []string
			for i := 0; i < ta.Len(); i++ {
				as = append(as, typeName(ta.At(i)))
			}
			n += "_L" + strings.Join(as, "_") + "R_"
		}
		return sanitize(n)
	case *types.Alias:
		return typeName(types.Unalias(t))
	case *types.Pointer:
		return "ptr." + typeName(t.Elem())
	case *types.Basic:
		return sanitize(t.Name())
	case *types.Slice:
		return "sl." + typeName(t.Elem())
	case *types.Map:
		return "map." + typeName(t.Key()) + "." + typeName(t.Elem())
	case *types.Struct:
		h := fnv.New32a()
		h.Write([]byte(t.String()))
		return fmt.Sprintf("anon%x", h.Sum32())
	case *types.Interface:
		if t.Empty() {
			return "any"
		}
		h := fnv.New32a()
		h.Write([]byte(t.String()))
		return fmt.Sprintf("iface%x", h.Sum32())
	case *types.Signature:
		h := fnv.New32a()
		h.Write([]byte(t.String()))
		return fmt.Sprintf("func%x", h.Sum32())
	case *types.Array:
		return fmt.Sprintf("arr%d.%s", t.Len(), typeName(t.Elem()))
	case *types.Chan:
		return "chan." + typeName(t.Elem())
	}
	return sanitize(t.String())
}

type unsupported struct{ msg string }

func (u unsupported) Error() string { return "unsupported: " + u.msg }

func unsupp(f string, a ...interface{}) { panic(unsupported{fmt.Sprintf(f, a...)}) }

// sortOf maps a Go type to an SMT sort, emitting datatype declarations as needed.
func (d *Decls) sortOf(t types.Type) string {
	t = types.Unalias(t)
	switch u := t.Underlying().(type) {
	case *types.Basic:
		switch {
		case u.Info()&types.IsBoolean != 0:
			return "Bool"
		case u.Info()&types.IsInteger != 0:
			return "Int"
		case u.Kind() == types.Float64 || u.Kind() == types.UntypedFloat:
			return "F64"
		case u.Kind() == types.Float32:
			return "F32"
		case u.Info()&types.IsString != 0:
			return "String"
		case u.Kind() == types.UnsafePointer:
			return "Int"
		case u.Kind() == types.UntypedNil:
			return "Int"
		}
		unsupp("basic type %s", u)
	case *types.Pointer, *types.Map, *types.Chan, *types.Signature:
		return "Int"
	case *types.Slice:
		return "Slice"
	case *types.Interface:
		return "Iface"
	case *types.Struct:
		name := "S$" + typeName(t)
		if _, ok := d.structs[name]; !ok {
			d.structs[name] = u
			var fs []string
			tn := typeName(t)
			for i := 0; i < u.NumFields(); i++ {
				f := u.Field(i)
				fs = append(fs, fmt.Sprintf("(f$%s$%s %s)", tn, sanitize(f.Name()), d.sortOf(f.Type())))
			}
			d.sdecl[name] = fmt.Sprintf("((mk$%s %s))", tn, strings.Join(fs, " "))
			d.sorder = append(d.sorder, name)
		}
		return name
	case *types.Array:
		return "(Array Int " + d.sortOf(u.Elem()) + ")"
	case *types.Tuple:
		unsupp("tuple sort")
	case *types.TypeParam:
		unsupp("type parameter")
	}
	unsupp("type %s", t)
	return ""
}

// zero value term of a type
func (d *Decls) zero(t types.Type) string {
	t = types.Unalias(t)
	switch u := t.Underlying().(type) {
	case *types.Basic:
		switch d.sortOf(t) {
		case "Bool":
			return "false"
		case "Int":
			return "0"
		case "F64":
			return "(_ +zero 11 53)"
		case "F32":
			return "(_ +zero 8 24)"
		case "String":
			return "\"\""
		}
	case *types.Pointer, *types.Map, *types.Chan, *types.Signature:
		return "0"
	case *types.Slice:
		return nilSlice
	case *types.Interface:
		return nilIface
	case *types.Struct:
		d.sortOf(t)
		tn := typeName(t)
		if u.NumFields() == 0 {
			return "mk$" + tn
		}
		var fs []string
		for i := 0; i < u.NumFields(); i++ {
			fs = append(fs, d.zero(u.Field(i).Type()))
		}
		return "(mk$" + tn + " " + strings.Join(fs, " ") + ")"
	case *types.Array:
		return fmt.Sprintf("((as const %s) %s)", d.sortOf(t), d.zero(u.Elem()))
	}
	unsupp("zero of %s", t)
	return ""
}

// tagOf gives the interface tag constant for a concrete dynamic type.
func (d *Decls) tagOf(t types.Type) string {
	t = types.Unalias(t)
	n := "tag$" + typeName(t)
	if !d.has("tag:" + n) {
		// stable numbering: hash of the name (collisions checked)
		h := fnv.New32a()
		h.Write([]byte(n))
		v := int(h.Sum32()%1000000007) + 1
		for _, ov := range d.tags {
			if ov == v {
				v += 7919
			}
		}
		d.tags[n] = v
		d.tagTypes[n] = t
		d.add("tag:"+n, fmt.Sprintf("(define-fun %s () Int %d)", n, v))
	}
	return n
}

// box/unbox constructors for storing a value of sort s in an interface.
func (d *Decls) boxOfSort(s string) (box, unbox string) {
	k := sanitize(s)
	if !d.boxes[s] {
		d.boxes[s] = true
		d.border = append(d.border, s)
	}
	return "bx$" + k, "ub$" + k
}

func (d *Decls) boxFns(t types.Type) (box, unbox string, identity bool) {
	box, unbox = d.boxOfSort(d.sortOf(t))
	return box, unbox, false
}

func (d *Decls) emit() string {
	var b strings.Builder
	d.boxOfSort("Int")
	// all datatypes in one (mutually recursive) block
	names := []string{"(Slice 0)", "(Iface 0)", "(Box 0)"}
	cons := []string{"((mk_slice (s_ref Int) (s_off Int) (s_len Int) (s_cap Int)))", "((mk_iface (i_tag Int) (i_box Box)))"}
	var bc []string
	for _, s := range d.border {
		k := sanitize(s)
		bc = append(bc, fmt.Sprintf("(bx$%s (ub$%s %s))", k, k, s))
	}
	cons = append(cons, "("+strings.Join(bc, " ")+")")
	for _, n := range d.sorder {
		names = append(names, "("+n+" 0)")
		cons = append(cons, d.sdecl[n])
	}
	fmt.Fprintf(&b, "(declare-datatypes (%s) (%s))\n", strings.Join(names, " "), strings.Join(cons, "\n "))
	for _, k := range d.order {
		b.WriteString(d.text[k])
		b.WriteString("\n")
	}
	return b.String()
}

func sortedKeys(m map[string]string) []string {
	var ks []string
	for k := range m {
		ks = append(ks, k)
	}
	sort.Strings(ks)
	return ks
}

// integer range of a basic integer type (min,max as decimal strings); ok=false if not an int type
func intRange(t types.Type) (lo, hi string, ok bool) {
	b, isb := types.Unalias(t).Underlying().(*types.Basic)
	if !isb || b.Info()&types.IsInteger == 0 {
		return "", "", false
	}
	switch b.Kind() {
	case types.Int8:
		return "(- 128)", "127", true
	case types.Int16:
		return "(- 32768)", "32767", true
	case types.Int32:
		return "(- 2147483648)", "2147483647", true
	case types.Int, types.Int64, types.UntypedInt, types.UntypedRune:
		return "(- 9223372036854775808)", "9223372036854775807", true
	case types.Uint8:
		return "0", "255", true
	case types.Uint16:
		return "0", "65535", true
	case types.Uint32:
		return "0", "4294967295", true
	case types.Uint, types.Uint64, types.Uintptr:
		return "0", "18446744073709551615", true
	}
	return "", "", false
}
