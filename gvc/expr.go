package main

import (
	"fmt"
	"golang.org/x/tools/go/ssa"
	"go/ast"
	"go/token"
	"go/types"
	"strconv"
	"strings"
)

// Env is the evaluation environment of a contract expression.
type Env struct {
	g       *Gen
	vars    map[string]Arg
	st      *State
	old     *State
	results []Term
	pkg     *types.Package
	bound   map[string]Term
	margs   map[string]Arg // macro parameters bound to locations
	frame   *Frame
}

type specErr struct{ msg string }

func (e specErr) Error() string { return "contract: " + e.msg }
func cerr(f string, a ...interface{}) {
	panic(specErr{fmt.Sprintf(f, a...)})
}

type modLoc struct {
	loc       *Loc
	whole     string // whole component
	exceptRef string
}

func (env *Env) withState(st *State) *Env {
	n := *env
	n.st = st
	return &n
}

func (g *Gen) clauseEnv(env *Env, c *Clause) string {
	t := env.tr(c.Expr)
	if t.Sort != "Bool" {
		cerr("clause %q is not boolean (%s)", c.Text, t.Sort)
	}
	return t.S
}

// frameEnv builds the environment of the frame's own contract.
func (g *Gen) frameEnv(f *Frame, st *State, results []Term) *Env {
	env := &Env{g: g, vars: map[string]Arg{}, st: st, old: f.entry, results: results, pkg: f.fn.Pkg.Pkg}
	if f.fn.Pkg == nil && f.fn.Parent() != nil {
		env.pkg = f.fn.Parent().Pkg.Pkg
	}
	for _, p := range f.fn.Params {
		if l, ok := f.locs[p]; ok {
			env.vars[p.Name()] = Arg{loc: l, t: Term{T: p.Type()}}
		} else if t, ok := f.paramEntry[p.Name()]; ok {
			env.vars[p.Name()] = Arg{t: t}
		} else if t, ok := f.vals[p]; ok {
			// an inlined callee: its parameters are the argument values
			env.vars[p.Name()] = Arg{t: t}
		}
	}
	for _, p := range f.fn.FreeVars {
		if l, ok := f.locs[p]; ok {
			env.vars[p.Name()] = Arg{loc: l, t: Term{T: p.Type()}}
		} else if t, ok := f.vals[p]; ok {
			env.vars[p.Name()] = Arg{t: t}
		}
	}
	// SSA values by name (for loop invariants): source-level locals are visible through their phi names
	for v, t := range f.vals {
		n := v.Name()
		if _, taken := env.vars[n]; !taken && strings.HasPrefix(n, "t") {
			env.vars[n] = Arg{t: t}
		}
	}
	for name, t := range f.named {
		env.vars[name] = Arg{t: t}
	}
	// source-level locals that denote a single SSA value (or a single cell) are visible by their source name
	for name, d := range g.debugNames(f.fn) {
		if _, taken := env.vars[name]; taken {
			continue
		}
		if d.addr {
			if l, ok := f.locs[d.v]; ok {
				env.vars[name] = Arg{loc: l, t: Term{T: ptrElem(d.v.Type())}}
			} else if t, ok := f.vals[d.v]; ok && isStruct(ptrElem(d.v.Type())) {
				// an addressable struct-typed local: the name denotes the variable through its address, so that
				// name.field reads the field's current value
				env.vars[name] = Arg{t: t}
			}
		} else if t, ok := f.vals[d.v]; ok {
			if d.dom {
				phi := d.v.(*ssa.Phi)
				if f.curBlock == nil || !phi.Block().Dominates(f.curBlock) {
					continue
				}
			}
			env.vars[name] = Arg{t: t}
		}
	}
	env.frame = f
	if f.loopRange != nil {
		if _, isMap := types.Unalias(f.loopRange.X.Type()).Underlying().(*types.Map); !isMap {
			// "looppos": byte position of the next rune of the enclosing `for ... range string` loop
			if it, ok := f.vals[f.loopRange]; ok {
				g.compDecl("IT", "(Array Int Int)")
				env.vars["looppos"] = Arg{t: intT(fmt.Sprintf("(select %s %s)", g.get(st, "IT"), it.S))}
			}
		}
	}
	// loop-carried source variables are visible by their source name inside loop clauses
	// loop-carried source variables (of this loop and of the enclosing ones) by their source name
	for name, phi := range f.loopNames {
		if t, ok := f.vals[phi]; ok {
			env.vars[name] = Arg{t: t}
		}
	}
	// a source name used inside this loop that denotes one value defined outside it (e.g. assigned earlier in the
	// enclosing loop's body) denotes that value; only this loop's own loop-carried variables take precedence
	for name, v := range f.loopVals {
		if phi, isLoopVar := f.loopNames[name]; isLoopVar {
			if op, isOuter := f.loopOuter[name]; !isOuter || op != phi {
				continue
			}
		}
		if t, ok := f.vals[v]; ok {
			env.vars[name] = Arg{t: t}
		}
	}
	if f.loopIdx != nil {
		// "looprange": the slice a `for ... range slice` loop iterates over (its hidden index is compared with len(slice))
		if sl := rangedSlice(f.loopIdx); sl != nil {
			if t, ok := f.vals[sl]; ok {
				env.vars["looprange"] = Arg{t: t}
			}
		}
	}
	if f.loopIdx != nil {
		// "loopidx": the hidden index of the enclosing `for ... range slice` loop; elements 0..loopidx are done
		if t, ok := f.vals[f.loopIdx]; ok {
			env.vars["loopidx"] = Arg{t: t}
		}
	}
	return env
}

func (g *Gen) clause(f *Frame, c *Clause, st *State, results []Term) string {
	return g.clauseEnv(g.frameEnv(f, st, results), c)
}

func (g *Gen) clauseTerm(f *Frame, c *Clause, st *State, results []Term) Term {
	return g.frameEnv(f, st, results).tr(c.Expr)
}

func boolT(s string) Term { return Term{s, "Bool", types.Typ[types.Bool]} }
func intT(s string) Term  { return Term{s, "Int", types.Typ[types.Int]} }

func (env *Env) resolveType(e ast.Expr) types.Type {
	switch e := e.(type) {
	case *ast.Ident:
		if env.pkg != nil {
			if o := env.pkg.Scope().Lookup(e.Name); o != nil {
				if tn, ok := o.(*types.TypeName); ok {
					return tn.Type()
				}
			}
		}
		if o := types.Universe.Lookup(e.Name); o != nil {
			if tn, ok := o.(*types.TypeName); ok {
				return tn.Type()
			}
		}
	case *ast.StarExpr:
		return types.NewPointer(env.resolveType(e.X))
	case *ast.SelectorExpr:
		if id, ok := e.X.(*ast.Ident); ok {
			var imps []*types.Package
			if env.pkg != nil {
				imps = env.pkg.Imports()
			}
			for _, imp := range imps {
				// by declared package name, or by the last element of the import path (the usual local alias of
				// generated packages whose declared name differs, e.g. sdcpb)
				if imp.Name() == id.Name || pathBase(imp.Path()) == id.Name {
					if o := imp.Scope().Lookup(e.Sel.Name); o != nil {
						return o.Type()
					}
				}
			}
			// a package the contract's package does not (or no longer) import: any loaded package of that name
			for _, sp := range env.g.w.Prog.AllPackages() {
				if sp.Pkg.Name() == id.Name {
					if o := sp.Pkg.Scope().Lookup(e.Sel.Name); o != nil {
						if _, isType := o.(*types.TypeName); isType {
							return o.Type()
						}
					}
				}
			}
		}
	case *ast.ArrayType:
		if e.Len == nil {
			return types.NewSlice(env.resolveType(e.Elt))
		}
	case *ast.ParenExpr:
		return env.resolveType(e.X)
	}
	cerr("cannot resolve type %s", exprString(e))
	return nil
}

func exprString(e ast.Expr) string { return types.ExprString(e) }

// lval translates an expression designating a storage location.
func (env *Env) lval(e ast.Expr) *Loc {
	g := env.g
	switch e := e.(type) {
	case *ast.ParenExpr:
		return env.lval(e.X)
	case *ast.Ident:
		if a, ok := env.lookupVar(e.Name); ok && a.loc != nil {
			return a.loc
		}
		if _, isB := env.bound[e.Name]; isB {
			return nil
		}
		if _, isVar := env.vars[e.Name]; !isVar && env.pkg != nil {
			if o := env.pkg.Scope().Lookup(e.Name); o != nil {
				if v, ok := o.(*types.Var); ok && !isStruct(v.Type()) {
					return g.globalLoc(v)
				}
			}
		}
	case *ast.StarExpr:
		if id, ok := e.X.(*ast.Ident); ok {
			if a, ok := env.lookupVar(id.Name); ok {
				if a.loc != nil {
					return a.loc
				}
				if el := ptrElem(a.t.T); el != nil && !isStruct(el) {
					return g.cellLoc(a.t.S, el)
				}
			}
		}
		x := env.tr(e.X)
		if el := ptrElem(x.T); el != nil && !isStruct(el) {
			return g.cellLoc(x.S, el)
		}
	case *ast.SelectorExpr:
		// base may be a location (pointer bound to a Loc), a pointer value or a nested field location
		var baseLoc *Loc
		var baseT types.Type
		if id, ok := e.X.(*ast.Ident); ok {
			if a, ok := env.lookupVar(id.Name); ok && a.loc != nil {
				baseLoc, baseT = a.loc, a.loc.typ
			}
		}
		if baseLoc == nil {
			if _, isSel := e.X.(*ast.SelectorExpr); isSel || isIndex(e.X) {
				if l := env.tryLval(e.X); l != nil && isStruct(l.typ) {
					baseLoc, baseT = l, l.typ
				}
			}
		}
		if baseLoc != nil {
			path := fieldPath(baseT, e.Sel.Name)
			if path == nil {
				cerr("no field %s in %s", e.Sel.Name, baseT)
			}
			l := baseLoc
			for _, k := range path {
				if p := ptrElem(l.typ); p != nil {
					// pointer field: dereference
					ref := g.read(env.st, l)
					l = g.fieldLoc(ref, p, k)
					continue
				}
				l = l.sub(k)
			}
			return l
		}
		x := env.tr(e.X)
		st := ptrElem(x.T)
		if st == nil || !isStruct(st) {
			return nil
		}
		path := fieldPath(st, e.Sel.Name)
		if path == nil {
			cerr("no field %s in %s", e.Sel.Name, st)
		}
		l := g.fieldLoc(x.S, st, path[0])
		for _, k := range path[1:] {
			if p := ptrElem(l.typ); p != nil {
				ref := g.read(env.st, l)
				l = g.fieldLoc(ref, p, k)
				continue
			}
			l = l.sub(k)
		}
		return l
	case *ast.IndexExpr:
		if bl := env.tryLval(e.X); bl != nil {
			if _, isArr := types.Unalias(bl.typ).Underlying().(*types.Array); isArr {
				i := env.tr(e.Index)
				return bl.subIdx(i.S)
			}
		}
		x := env.tr(e.X)
		if sl, ok := types.Unalias(x.T).Underlying().(*types.Slice); ok {
			i := env.tr(e.Index)
			return g.elemLoc(x.S, i.S, sl.Elem())
		}
	}
	return nil
}

func isIndex(e ast.Expr) bool { _, ok := e.(*ast.IndexExpr); return ok }

func (env *Env) tryLval(e ast.Expr) (l *Loc) {
	defer func() {
		if r := recover(); r != nil {
			if _, ok := r.(specErr); ok {
				l = nil
				return
			}
			panic(r)
		}
	}()
	return env.lval(e)
}

// fieldPath finds the (possibly promoted) field by name; returns struct-field index path.
func fieldPath(t types.Type, name string) []int {
	if p := ptrElem(t); p != nil {
		t = p
	}
	obj, idx, _ := types.LookupFieldOrMethod(t, true, nil, name)
	if obj == nil {
		// unexported field of another package: search manually
		return manualFieldPath(t, name, 0)
	}
	if _, ok := obj.(*types.Var); !ok {
		return nil
	}
	return idx
}

func manualFieldPath(t types.Type, name string, depth int) []int {
	if depth > 3 {
		return nil
	}
	if p := ptrElem(t); p != nil {
		t = p
	}
	u, ok := types.Unalias(t).Underlying().(*types.Struct)
	if !ok {
		return nil
	}
	for i := 0; i < u.NumFields(); i++ {
		if u.Field(i).Name() == name {
			return []int{i}
		}
	}
	for i := 0; i < u.NumFields(); i++ {
		if u.Field(i).Embedded() {
			if p := manualFieldPath(u.Field(i).Type(), name, depth+1); p != nil {
				return append([]int{i}, p...)
			}
		}
	}
	return nil
}

// tr translates a contract expression; slice values read from the heap get their representation invariant.
func (env *Env) tr(e ast.Expr) Term {
	t := env.tr0(e)
	if t.Sort == "Slice" && len(env.bound) == 0 && !strings.HasPrefix(t.S, "(mk_slice") {
		switch e.(type) {
		case *ast.SelectorExpr, *ast.IndexExpr, *ast.StarExpr:
			env.g.assume("true", fmt.Sprintf("(and (<= 0 (s_off %[1]s)) (<= 0 (s_len %[1]s)) (<= (s_len %[1]s) (s_cap %[1]s)) (<= (+ (s_off %[1]s) (s_cap %[1]s)) 9223372036854775807) (<= 0 (s_ref %[1]s)) (=> (= (s_ref %[1]s) 0) (= (s_cap %[1]s) 0)))", t.S))
		}
	}
	return t
}

func (env *Env) tr0(e ast.Expr) Term {
	g := env.g
	switch e := e.(type) {
	case *ast.ParenExpr:
		return env.tr(e.X)
	case *ast.BasicLit:
		switch e.Kind {
		case token.INT:
			return Term{e.Value, "Int", types.Typ[types.UntypedInt]}
		case token.FLOAT:
			f, err := strconv.ParseFloat(e.Value, 64)
			if err != nil {
				cerr("bad float %s", e.Value)
			}
			return Term{fpLit64(f), "F64", types.Typ[types.Float64]}
		case token.STRING:
			s, err := strconv.Unquote(e.Value)
			if err != nil {
				cerr("bad string %s", e.Value)
			}
			return Term{smtString(s), "String", types.Typ[types.String]}
		case token.CHAR:
			s, _, _, err := strconv.UnquoteChar(e.Value[1:len(e.Value)-1], '\'')
			if err != nil {
				cerr("bad char %s", e.Value)
			}
			return Term{fmt.Sprint(int(s)), "Int", types.Typ[types.UntypedRune]}
		}
	case *ast.Ident:
		switch e.Name {
		case "true", "false":
			return boolT(e.Name)
		case "nil":
			return Term{"nil", "Nil", types.Typ[types.UntypedNil]}
		case "result", "result0":
			if len(env.results) == 0 {
				cerr("no result available")
			}
			return env.results[0]
		}
		if strings.HasPrefix(e.Name, "result") {
			if k, err := strconv.Atoi(e.Name[6:]); err == nil && k < len(env.results) {
				return env.results[k]
			}
		}
		if t, ok := env.bound[e.Name]; ok {
			return t
		}
		if a, ok := env.margs[e.Name]; ok {
			if isStruct(a.loc.typ) {
				return Term{g.read(env.st, a.loc), g.d.sortOf(a.loc.typ), a.loc.typ}
			}
			cerr("pointer %s is a location", e.Name)
		}
		if a, ok := env.vars[e.Name]; ok {
			if a.loc != nil {
				if isStruct(a.loc.typ) {
					// pointer to struct bound to a location: value use means the struct value
					return Term{g.read(env.st, a.loc), g.d.sortOf(a.loc.typ), a.loc.typ}
				}
				cerr("pointer %s is a location; use *%s or a field", e.Name, e.Name)
			}
			return a.t
		}
		if s, ok := g.specs.consts[e.Name]; ok {
			return Term{e.Name, s, sortType(s)}
		}
		// callarg0, callarg1, ...: inside a callsite clause, the operands of the call the clause is checked at
		if strings.HasPrefix(e.Name, "callarg") && g.callArgs != nil {
			if k, err := strconv.Atoi(e.Name[7:]); err == nil && k < len(g.callArgs) && g.callArgs[k].loc == nil {
				return g.callArgs[k].t
			}
		}
		// package-level constant or variable
		if env.pkg != nil {
			if o := env.pkg.Scope().Lookup(e.Name); o != nil {
				if c, ok := o.(*types.Const); ok {
					return g.goConst(c)
				}
				if v, ok := o.(*types.Var); ok {
					l := g.globalLoc(v)
					return Term{g.read(env.st, l), g.d.sortOf(v.Type()), v.Type()}
				}
			}
		}
		cerr("unknown identifier %s", e.Name)
	case *ast.UnaryExpr:
		x := env.tr(e.X)
		switch e.Op {
		case token.NOT:
			return boolT(not(x.S))
		case token.SUB:
			if isFloatSort(x.Sort) {
				return Term{fmt.Sprintf("(fp.neg %s)", x.S), x.Sort, x.T}
			}
			return Term{fmt.Sprintf("(- %s)", x.S), "Int", x.T}
		}
	case *ast.StarExpr:
		if l := env.lval(e); l != nil {
			return Term{g.read(env.st, l), g.d.sortOf(l.typ), l.typ}
		}
		x := env.tr(e.X)
		if st := ptrElem(x.T); st != nil && isStruct(st) {
			return Term{g.loadStruct(env.st, x.S, st), g.d.sortOf(st), st}
		}
		cerr("cannot dereference %s", exprString(e.X))
	case *ast.BinaryExpr:
		return env.binary(e)
	case *ast.SelectorExpr:
		// package-qualified constant?
		if id, ok := e.X.(*ast.Ident); ok && env.pkg != nil {
			if _, isVar := env.vars[id.Name]; !isVar {
				if _, isB := env.bound[id.Name]; !isB {
					for _, imp := range env.pkg.Imports() {
						if imp.Name() == id.Name {
							if o := imp.Scope().Lookup(e.Sel.Name); o != nil {
								if c, ok := o.(*types.Const); ok {
									return g.goConst(c)
								}
							}
						}
					}
				}
			}
		}
		if l := env.lval(e); l != nil {
			return Term{g.read(env.st, l), g.d.sortOf(l.typ), l.typ}
		}
		x := env.tr(e.X)
		if isStruct(x.T) {
			path := fieldPath(x.T, e.Sel.Name)
			if path == nil {
				cerr("no field %s in %s", e.Sel.Name, x.T)
			}
			t, v := x.T, x.S
			for _, k := range path {
				if p := ptrElem(t); p != nil {
					l := g.fieldLoc(v, p, k)
					v = g.read(env.st, l)
					t = l.typ
					continue
				}
				v = fmt.Sprintf("(%s %s)", fieldAcc(t, k), v)
				t = types.Unalias(t).Underlying().(*types.Struct).Field(k).Type()
			}
			return Term{v, g.d.sortOf(t), t}
		}
		cerr("cannot select %s from %s (%v)", e.Sel.Name, exprString(e.X), x.T)
	case *ast.IndexExpr:
		if id, ok := e.X.(*ast.Ident); ok && env.pkg != nil {
			if _, isVar := env.lookupVar(id.Name); !isVar {
				if _, isB := env.bound[id.Name]; !isB {
					if o, ok := env.pkg.Scope().Lookup(id.Name).(*types.Var); ok {
						if sp := g.w.SSAPkgs[env.pkg.Path()]; sp != nil {
							if gl, ok := sp.Members[o.Name()].(*ssa.Global); ok {
								if _, vf, ok := g.tableFuncs(gl); ok {
									i := env.tr(e.Index)
									mt := types.Unalias(o.Type()).Underlying().(*types.Map)
									return Term{fmt.Sprintf("(%s %s)", vf, i.S), g.d.sortOf(mt.Elem()), mt.Elem()}
								}
							}
						}
					}
				}
			}
		}
		x := env.tr(e.X)
		i := env.tr(e.Index)
		if x.T == nil {
			cerr("cannot index %s: its Go type is unknown (use typed(e, T))", exprString(e.X))
		}
		switch u := types.Unalias(x.T).Underlying().(type) {
		case *types.Slice:
			l := g.elemLoc(x.S, i.S, u.Elem())
			return Term{g.read(env.st, l), g.d.sortOf(u.Elem()), u.Elem()}
		case *types.Basic:
			return Term{fmt.Sprintf("(str.to_code (str.at %s %s))", x.S, i.S), "Int", types.Typ[types.Uint8]}
		case *types.Array:
			return Term{fmt.Sprintf("(select %s %s)", x.S, i.S), g.d.sortOf(u.Elem()), u.Elem()}
		case *types.Map:
			val, has, _, _, _ := g.mapComps(u)
			h := fmt.Sprintf("(and (not (= %s 0)) (select (select %s %s) %s))", x.S, g.get(env.st, has), x.S, i.S)
			return Term{fmt.Sprintf("(ite %s (select (select %s %s) %s) %s)", h, g.get(env.st, val), x.S, i.S, g.d.zero(u.Elem())), g.d.sortOf(u.Elem()), u.Elem()}
		}
		cerr("cannot index %s", exprString(e.X))
	case *ast.SliceExpr:
		x := env.tr(e.X)
		lo := "0"
		if e.Low != nil {
			lo = env.tr(e.Low).S
		}
		if x.Sort == "String" {
			hi := fmt.Sprintf("(str.len %s)", x.S)
			if e.High != nil {
				hi = env.tr(e.High).S
			}
			return Term{fmt.Sprintf("(str.substr %s %s (- %s %s))", x.S, lo, hi, lo), "String", x.T}
		}
		if x.Sort == "Slice" {
			hi := fmt.Sprintf("(s_len %s)", x.S)
			if e.High != nil {
				hi = env.tr(e.High).S
			}
			return Term{fmt.Sprintf("(mk_slice (s_ref %[1]s) (+ (s_off %[1]s) %[2]s) (- %[3]s %[2]s) (- (s_cap %[1]s) %[2]s))", x.S, lo, hi), "Slice", x.T}
		}
		cerr("cannot slice %s", exprString(e.X))
	case *ast.TypeAssertExpr:
		x := env.tr(e.X)
		t := env.resolveType(e.Type)
		return Term{g.unboxIface(x.S, t), g.d.sortOf(t), t}
	case *ast.CallExpr:
		return env.call(e)
	}
	cerr("unsupported expression %s (%T)", exprString(e), e)
	return Term{}
}

func sortType(s string) types.Type {
	switch s {
	case "Bool":
		return types.Typ[types.Bool]
	case "Int":
		return types.Typ[types.Int]
	case "String":
		return types.Typ[types.String]
	case "F64":
		return types.Typ[types.Float64]
	}
	return nil
}

func (g *Gen) goConst(c *types.Const) Term {
	t := c.Type()
	srt := g.d.sortOf(t)
	switch srt {
	case "Int":
		return Term{smtIntStr(c.Val().ExactString()), srt, t}
	case "String":
		s, _ := strconv.Unquote(c.Val().ExactString())
		return Term{smtString(s), srt, t}
	case "Bool":
		return Term{c.Val().String(), srt, t}
	}
	cerr("constant %s of unsupported sort", c.Name())
	return Term{}
}

func smtIntStr(s string) string {
	if strings.HasPrefix(s, "-") {
		return "(- " + s[1:] + ")"
	}
	return s
}

func (env *Env) coerce(a, b Term) (Term, Term) {
	if a.Sort == b.Sort {
		return a, b
	}
	fix := func(lit, other Term) Term {
		if other.Sort == "F64" && lit.Sort == "Int" && isUntyped(lit.T) {
			return Term{fmt.Sprintf("((_ to_fp 11 53) RNE %s.0)", strings.TrimSuffix(lit.S, ".0")), "F64", other.T}
		}
		if lit.Sort == "Nil" {
			switch other.Sort {
			case "Int":
				return Term{"0", "Int", other.T}
			case "Slice":
				return Term{nilSlice, "Slice", other.T}
			case "Iface":
				return Term{nilIface, "Iface", other.T}
			}
		}
		return lit
	}
	a2 := fix(a, b)
	b2 := fix(b, a2)
	return a2, b2
}

func isUntyped(t types.Type) bool {
	b, ok := t.(*types.Basic)
	return ok && b.Info()&types.IsUntyped != 0
}

func (env *Env) binary(e *ast.BinaryExpr) Term {
	// p == nil / p != nil where p is bound to an interior location (the address of a field or element: &x.f
	// passed as a pointer argument): such an address is never nil - the nil-deref obligation of its base was
	// generated where the address was formed.
	if e.Op == token.EQL || e.Op == token.NEQ {
		isNil := func(x ast.Expr) bool { id, ok := x.(*ast.Ident); return ok && id.Name == "nil" }
		isLoc := func(x ast.Expr) bool {
			id, ok := x.(*ast.Ident)
			if !ok {
				return false
			}
			if _, isB := env.bound[id.Name]; isB {
				return false
			}
			a, ok := env.lookupVar(id.Name)
			return ok && a.loc != nil && a.t.S == "" && ptrElem(a.t.T) != nil
		}
		if (isLoc(e.X) && isNil(e.Y)) || (isNil(e.X) && isLoc(e.Y)) {
			if e.Op == token.NEQ {
				return boolT("true")
			}
			return boolT("false")
		}
	}
	x, y := env.tr(e.X), env.tr(e.Y)
	x, y = env.coerce(x, y)
	switch e.Op {
	case token.LAND:
		return boolT(and(x.S, y.S))
	case token.LOR:
		return boolT(or(x.S, y.S))
	}
	if x.Sort == "Nil" || y.Sort == "Nil" {
		cerr("cannot type nil in %s", exprString(e))
	}
	if x.Sort != y.Sort {
		cerr("sort mismatch in %s: %s vs %s", exprString(e), x.Sort, y.Sort)
	}
	fl := isFloatSort(x.Sort)
	switch e.Op {
	case token.EQL, token.NEQ:
		var r string
		switch {
		case fl:
			r = fmt.Sprintf("(fp.eq %s %s)", x.S, y.S)
		case x.Sort == "Slice" && (y.S == nilSlice || x.S == nilSlice):
			o := x
			if x.S == nilSlice {
				o = y
			}
			r = fmt.Sprintf("(= (s_ref %s) 0)", o.S)
		case x.Sort == "Iface" && (y.S == nilIface || x.S == nilIface):
			o := x
			if x.S == nilIface {
				o = y
			}
			r = fmt.Sprintf("(= (i_tag %s) 0)", o.S)
		default:
			r = fmt.Sprintf("(= %s %s)", x.S, y.S)
		}
		if e.Op == token.NEQ {
			r = not(r)
		}
		return boolT(r)
	case token.LSS, token.LEQ, token.GTR, token.GEQ:
		var op string
		switch {
		case fl:
			op = map[token.Token]string{token.LSS: "fp.lt", token.LEQ: "fp.leq", token.GTR: "fp.gt", token.GEQ: "fp.geq"}[e.Op]
		case x.Sort == "Int":
			op = e.Op.String()
		case x.Sort == "String":
			switch e.Op {
			case token.LSS:
				return boolT(fmt.Sprintf("(str.< %s %s)", x.S, y.S))
			case token.LEQ:
				return boolT(fmt.Sprintf("(str.<= %s %s)", x.S, y.S))
			case token.GTR:
				return boolT(fmt.Sprintf("(str.< %s %s)", y.S, x.S))
			default:
				return boolT(fmt.Sprintf("(str.<= %s %s)", y.S, x.S))
			}
		default:
			cerr("cannot order %s", x.Sort)
		}
		return boolT(fmt.Sprintf("(%s %s %s)", op, x.S, y.S))
	case token.ADD, token.SUB, token.MUL, token.QUO, token.REM:
		switch {
		case fl:
			op := map[token.Token]string{token.ADD: "fadd", token.SUB: "fsub", token.MUL: "fmul", token.QUO: "fdiv"}[e.Op]
			if op == "" {
				cerr("float %s", e.Op)
			}
			return Term{fmt.Sprintf("(%s %s %s)", op, x.S, y.S), x.Sort, x.T}
		case x.Sort == "Int":
			t := x.T
			if isUntyped(t) {
				t = y.T
			}
			switch e.Op {
			case token.QUO:
				return Term{goDiv(x.S, y.S), "Int", t}
			case token.REM:
				return Term{goRem(x.S, y.S), "Int", t}
			}
			return Term{fmt.Sprintf("(%s %s %s)", e.Op, x.S, y.S), "Int", t}
		case x.Sort == "String" && e.Op == token.ADD:
			return Term{fmt.Sprintf("(str.++ %s %s)", x.S, y.S), "String", x.T}
		}
	}
	cerr("unsupported binary %s", exprString(e))
	return Term{}
}

func (env *Env) call(e *ast.CallExpr) Term {
	g := env.g
	name := ""
	if id, ok := e.Fun.(*ast.Ident); ok {
		name = id.Name
	}
	argn := func(n int) {
		if len(e.Args) != n {
			cerr("%s expects %d arguments", name, n)
		}
	}
	switch name {
	case "len":
		argn(1)
		x := env.tr(e.Args[0])
		switch x.Sort {
		case "Slice":
			return intT(fmt.Sprintf("(s_len %s)", x.S))
		case "String":
			return intT(fmt.Sprintf("(str.len %s)", x.S))
		case "Int":
			if mt, ok := types.Unalias(x.T).Underlying().(*types.Map); ok {
				_, _, ln, _, _ := g.mapComps(mt)
				return intT(fmt.Sprintf("(ite (= %[1]s 0) 0 (select %[2]s %[1]s))", x.S, g.get(env.st, ln)))
			}
		}
		cerr("len of %s", x.Sort)
	case "cap":
		argn(1)
		x := env.tr(e.Args[0])
		return intT(fmt.Sprintf("(s_cap %s)", x.S))
	case "old":
		argn(1)
		if env.old == nil {
			cerr("old() not available here")
		}
		{
			n := env.withState(env.old)
			if f := env.frame; f != nil && f.paramEntry != nil {
				// inside old() a parameter name denotes the argument value, also where the parameter was reassigned
				// (loop-carried or re-bound) by the body
				nv := make(map[string]Arg, len(env.vars))
				for k, v := range env.vars {
					nv[k] = v
				}
				for _, p := range f.fn.Params {
					if _, isLoc := f.locs[p]; isLoc {
						continue
					}
					if t, ok := f.paramEntry[p.Name()]; ok {
						nv[p.Name()] = Arg{t: t}
					}
				}
				n.vars = nv
			}
			return n.tr(e.Args[0])
		}
	case "outer":
		// outer(x): the value of the loop-carried source variable x at the head of the ENCLOSING loop's current
		// iteration (inside the clauses of an inner loop that carries a variable of the same name)
		argn(1)
		{
			id, ok := e.Args[0].(*ast.Ident)
			if !ok || env.frame == nil || env.frame.loopOuter == nil {
				cerr("outer(): needs a variable name inside a nested loop clause")
			}
			phi := env.frame.loopOuter[id.Name]
			if phi == nil {
				cerr("outer(%s): no enclosing loop carries this variable", id.Name)
			}
			t, ok := env.frame.vals[phi]
			if !ok {
				cerr("outer(%s): value not available", id.Name)
			}
			return t
		}
	case "implies":
		argn(2)
		a, b := env.tr(e.Args[0]), env.tr(e.Args[1])
		return boolT(fmt.Sprintf("(=> %s %s)", a.S, b.S))
	case "same":
		// structural (SMT) equality: identifies NaN with NaN, distinguishes +0 and -0
		argn(2)
		a, b := env.coerce(env.tr(e.Args[0]), env.tr(e.Args[1]))
		if a.Sort != b.Sort {
			cerr("same(): sorts differ: %s vs %s", a.Sort, b.Sort)
		}
		return boolT(fmt.Sprintf("(= %s %s)", a.S, b.S))
	case "iff":
		argn(2)
		a, b := env.tr(e.Args[0]), env.tr(e.Args[1])
		return boolT(fmt.Sprintf("(= %s %s)", a.S, b.S))
	case "ite":
		argn(3)
		c, a, b := env.tr(e.Args[0]), env.tr(e.Args[1]), env.tr(e.Args[2])
		a, b = env.coerce(a, b)
		return Term{fmt.Sprintf("(ite %s %s %s)", c.S, a.S, b.S), a.Sort, a.T}
	case "forall", "exists":
		// forall(i, lo, hi, body): lo <= i < hi
		argn(4)
		id, ok := e.Args[0].(*ast.Ident)
		if !ok {
			cerr("%s: first argument must be an identifier", name)
		}
		lo, hi := env.tr(e.Args[1]), env.tr(e.Args[2])
		g.nfresh++
		bv := fmt.Sprintf("q%d_%s", g.nfresh, id.Name)
		n := *env
		n.bound = map[string]Term{}
		for k, v := range env.bound {
			n.bound[k] = v
		}
		n.bound[id.Name] = intT(bv)
		body := n.tr(e.Args[3])
		rng := fmt.Sprintf("(and (<= %s %s) (< %s %s))", lo.S, bv, bv, hi.S)
		if name == "forall" {
			return boolT(fmt.Sprintf("(forall ((%s Int)) (=> %s %s))", bv, rng, body.S))
		}
		return boolT(fmt.Sprintf("(exists ((%s Int)) (and %s %s))", bv, rng, body.S))
	case "visited":
		// visited(k): key k was already produced by the enclosing `for ... range map` loop
		argn(1)
		if env.frame == nil || env.frame.loopRange == nil {
			cerr("visited() outside a loop over a map")
		}
		rng := env.frame.loopRange
		mt := types.Unalias(rng.X.Type()).Underlying().(*types.Map)
		vc, _ := g.visitedComp(mt)
		k := env.tr(e.Args[0])
		it := env.frame.vals[rng]
		return boolT(fmt.Sprintf("(select (select %s %s) %s)", g.get(env.st, vc), it.S, k.S))
	case "forallof", "existsof":
		// forallof(x, T, body): x ranges over all values of Go type T
		argn(3)
		{
			id, ok := e.Args[0].(*ast.Ident)
			if !ok {
				cerr("%s: first argument must be an identifier", name)
			}
			t := env.resolveType(e.Args[1])
			g.nfresh++
			bv := fmt.Sprintf("q%d_%s", g.nfresh, id.Name)
			n := *env
			n.bound = map[string]Term{}
			for k, v := range env.bound {
				n.bound[k] = v
			}
			srt := g.d.sortOf(t)
			n.bound[id.Name] = Term{bv, srt, t}
			body := n.tr(e.Args[2])
			q := "forall"
			if name == "existsof" {
				q = "exists"
			}
			return boolT(fmt.Sprintf("(%s ((%s %s)) %s)", q, bv, srt, body.S))
		}
	case "forallint", "existsint":
		// forallint(k, body): k ranges over all integers (keys of integer-keyed maps)
		argn(2)
		{
			id, ok := e.Args[0].(*ast.Ident)
			if !ok {
				cerr("%s: first argument must be an identifier", name)
			}
			g.nfresh++
			bv := fmt.Sprintf("q%d_%s", g.nfresh, id.Name)
			n := *env
			n.bound = map[string]Term{}
			for k, v := range env.bound {
				n.bound[k] = v
			}
			n.bound[id.Name] = Term{bv, "Int", types.Typ[types.Int]}
			body := n.tr(e.Args[1])
			q := "forall"
			if name == "existsint" {
				q = "exists"
			}
			return boolT(fmt.Sprintf("(%s ((%s Int)) %s)", q, bv, body.S))
		}
	case "forallstr":
		// forallstr(k, body): k ranges over all strings
		argn(2)
		id, ok := e.Args[0].(*ast.Ident)
		if !ok {
			cerr("forallstr: first argument must be an identifier")
		}
		g.nfresh++
		bv := fmt.Sprintf("q%d_%s", g.nfresh, id.Name)
		n := *env
		n.bound = map[string]Term{}
		for k, v := range env.bound {
			n.bound[k] = v
		}
		n.bound[id.Name] = Term{bv, "String", types.Typ[types.String]}
		body := n.tr(e.Args[1])
		return boolT(fmt.Sprintf("(forall ((%s String)) %s)", bv, body.S))
	case "is":
		argn(2)
		x := env.tr(e.Args[0])
		t := env.resolveType(e.Args[1])
		if it, isI := types.Unalias(t).Underlying().(*types.Interface); isI {
			return boolT(g.ifaceHolds(x.S, it))
		}
		return boolT(fmt.Sprintf("(= (i_tag %s) %s)", x.S, g.d.tagOf(t)))
	case "iface":
		// iface(v): the interface value holding concrete v
		argn(1)
		x := env.tr(e.Args[0])
		return Term{g.makeIface(x), "Iface", nil}
	case "smt":
		// smt("Sort", "format with %s", args...)
		if len(e.Args) < 2 {
			cerr("smt needs sort and format")
		}
		srt, _ := strconv.Unquote(e.Args[0].(*ast.BasicLit).Value)
		format, _ := strconv.Unquote(e.Args[1].(*ast.BasicLit).Value)
		var as []interface{}
		for _, a := range e.Args[2:] {
			as = append(as, env.tr(a).S)
		}
		return Term{fmt.Sprintf(format, as...), srt, sortType(srt)}
	case "float64":
		argn(1)
		x := env.tr(e.Args[0])
		if x.Sort == "Int" {
			return Term{fmt.Sprintf("((_ to_fp 11 53) RNE (to_real %s))", x.S), "F64", types.Typ[types.Float64]}
		}
		return x
	case "int", "int64", "uint", "uint64", "int32", "uint32", "rune", "byte":
		argn(1)
		return env.tr(e.Args[0])
	case "nrecv":
		argn(1)
		ch := env.tr(e.Args[0])
		ct, ok := types.Unalias(ch.T).Underlying().(*types.Chan)
		if !ok {
			cerr("nrecv of non-channel")
		}
		cnt, _ := g.recvComp(ct)
		return intT(fmt.Sprintf("(select %s %s)", g.get(env.st, cnt), ch.S))
	case "chanitem":
		// chanitem(ch, k): the k-th value delivered by channel ch
		argn(2)
		ch, k := env.tr(e.Args[0]), env.tr(e.Args[1])
		ct, ok := types.Unalias(ch.T).Underlying().(*types.Chan)
		if !ok {
			cerr("chanitem of non-channel")
		}
		_, fn := g.recvComp(ct)
		return Term{fmt.Sprintf("(%s %s %s)", fn, ch.S, k.S), g.d.sortOf(ct.Elem()), ct.Elem()}
	case "nsent", "lastsent":
		// ghost history of a channel: how many values were sent on it and the last one
		argn(1)
		ch := env.tr(e.Args[0])
		ct, ok := types.Unalias(ch.T).Underlying().(*types.Chan)
		if !ok {
			cerr("%s of non-channel", name)
		}
		cnt, last := g.chanComps(ct)
		if name == "nsent" {
			return intT(fmt.Sprintf("(select %s %s)", g.get(env.st, cnt), ch.S))
		}
		return Term{fmt.Sprintf("(select %s %s)", g.get(env.st, last), ch.S), g.d.sortOf(ct.Elem()), ct.Elem()}
	case "ghost":
		// ghost("name"): a global ghost counter (specification-only state; changed only through modifies ghost("name"))
		argn(1)
		{
			lit, ok := e.Args[0].(*ast.BasicLit)
			if !ok {
				cerr("ghost: name must be a string literal")
			}
			nm, _ := strconv.Unquote(lit.Value)
			comp := "GH$" + sanitize(nm)
			g.compDecl(comp, "Int")
			return intT(g.get(env.st, comp))
		}
	case "called":
		// called(fn, x): ghost - the function value fn (a parameter of unnamed function type) has been applied to x by a
		// dynamic call made in a function under contract since the state was last havocked
		argn(2)
		{
			fnv, x := env.tr(e.Args[0]), env.tr(e.Args[1])
			if x.Sort != "Iface" && x.Sort != "Int" {
				cerr("called: unsupported argument sort %s", x.Sort)
			}
			comp := "GHC$" + x.Sort
			g.compDecl(comp, "(Array Int (Array "+x.Sort+" Bool))")
			return boolT(fmt.Sprintf("(select (select %s %s) %s)", g.get(env.st, comp), fnv.S, x.S))
		}
	case "chanclosed", "chandrained":
		// ghost flags of a channel: close(ch) was executed / a receive reported ok == false (closed and empty)
		argn(1)
		{
			ch := env.tr(e.Args[0])
			comp := "CHC"
			if name == "chandrained" {
				comp = "CHD"
			}
			g.compDecl(comp, "(Array Int Bool)")
			return boolT(fmt.Sprintf("(select %s %s)", g.get(env.st, comp), ch.S))
		}
	case "sref":
		// sref(s): the identity of the backing array of slice s (0 for nil); arrays allocated later have larger identities
		argn(1)
		{
			x := env.tr(e.Args[0])
			if x.Sort != "Slice" {
				cerr("sref of non-slice")
			}
			return intT(fmt.Sprintf("(s_ref %s)", x.S))
		}
	case "backing", "off":
		// backing(s): the backing array of slice s as an SMT array; off(s): the index of s[0] in it
		argn(1)
		x := env.tr(e.Args[0])
		sl, ok := types.Unalias(x.T).Underlying().(*types.Slice)
		if !ok {
			cerr("%s of non-slice", name)
		}
		if name == "off" {
			return intT(fmt.Sprintf("(s_off %s)", x.S))
		}
		comp, es := g.elemComp(sl.Elem())
		return Term{fmt.Sprintf("(select %s (s_ref %s))", g.get(env.st, comp), x.S), "(Array Int " + es + ")", nil}
	case "typed":
		// typed(e, T): gives the Go type T to a term produced by a spec function
		argn(2)
		x := env.tr(e.Args[0])
		t := env.resolveType(e.Args[1])
		if g.d.sortOf(t) != x.Sort {
			cerr("typed(): %s has sort %s, not that of %s", exprString(e.Args[0]), x.Sort, t)
		}
		return Term{x.S, x.Sort, t}
	case "sameArray":
		argn(2)
		a, b := env.tr(e.Args[0]), env.tr(e.Args[1])
		return boolT(fmt.Sprintf("(and (> (s_ref %[1]s) 0) (= (s_ref %[1]s) (s_ref %[2]s)))", a.S, b.S))
	case "hasprefix":
		argn(2)
		a, b := env.tr(e.Args[0]), env.tr(e.Args[1])
		return boolT(fmt.Sprintf("(str.prefixof %s %s)", b.S, a.S))
	case "isfresh":
		// isfresh(p): the object p was allocated during this call (after function entry)
		argn(1)
		x := env.tr(e.Args[0])
		if env.old == nil {
			cerr("isfresh needs an entry state")
		}
		if x.Sort == "Slice" {
			// a slice is fresh if it is nil or its backing array was allocated during this call
			return boolT(fmt.Sprintf("(or (= (s_ref %[1]s) 0) (> (s_ref %[1]s) %[2]s))", x.S, g.now(env.old)))
		}
		return boolT(fmt.Sprintf("(> %s %s)", x.S, g.now(env.old)))
	case "hassuffix":
		argn(2)
		a, b := env.tr(e.Args[0]), env.tr(e.Args[1])
		return boolT(fmt.Sprintf("(str.suffixof %s %s)", b.S, a.S))
	case "strcontains":
		argn(2)
		a, b := env.tr(e.Args[0]), env.tr(e.Args[1])
		return boolT(fmt.Sprintf("(str.contains %s %s)", a.S, b.S))
	case "funcval":
		// the value of a package-level function of the contract's package used as a function value
		argn(1)
		id, ok := e.Args[0].(*ast.Ident)
		if !ok || env.pkg == nil {
			cerr("funcval needs a function name")
		}
		fn := g.w.Funcs[relPkg(env.pkg.Path())+"."+id.Name]
		if fn == nil {
			cerr("funcval: no function %s", id.Name)
		}
		return Term{g.fnConst(fn), "Int", fn.Type()}
	case "keyset":
		// keyset(m): the set of keys of map m as an SMT array key -> Bool (a nil map has no keys)
		argn(1)
		{
			m := env.tr(e.Args[0])
			mt, ok := types.Unalias(m.T).Underlying().(*types.Map)
			if !ok {
				cerr("keyset of non-map")
			}
			_, has, _, ks, _ := g.mapComps(mt)
			srt := "(Array " + ks + " Bool)"
			return Term{fmt.Sprintf("(ite (= %s 0) ((as const %s) false) (select %s %s))", m.S, srt, g.get(env.st, has), m.S), srt, nil}
		}
	case "sel":
		// sel(a, k): element k of an SMT array term (e.g. membership in a keyset)
		argn(2)
		{
			a, k := env.tr(e.Args[0]), env.tr(e.Args[1])
			if !strings.HasPrefix(a.Sort, "(Array ") {
				cerr("sel on non-array sort %s", a.Sort)
			}
			its := sitems(a.Sort)
			return Term{fmt.Sprintf("(select %s %s)", a.S, k.S), its[2], sortType(its[2])}
		}
	case "forallsmt", "existssmt":
		// forallsmt(x, "Sort", body): x ranges over all values of an SMT sort
		argn(3)
		{
			id, ok := e.Args[0].(*ast.Ident)
			if !ok {
				cerr("%s: first argument must be an identifier", name)
			}
			srt, err := strconv.Unquote(e.Args[1].(*ast.BasicLit).Value)
			if err != nil {
				cerr("%s: sort must be a string literal", name)
			}
			g.nfresh++
			bv := fmt.Sprintf("q%d_%s", g.nfresh, id.Name)
			n := *env
			n.bound = map[string]Term{}
			for k, v := range env.bound {
				n.bound[k] = v
			}
			n.bound[id.Name] = Term{bv, srt, sortType(srt)}
			body := n.tr(e.Args[2])
			q := "forall"
			if name == "existssmt" {
				q = "exists"
			}
			return boolT(fmt.Sprintf("(%s ((%s %s)) %s)", q, bv, srt, body.S))
		}
	case "inmap":
		// inmap(m, k)
		argn(2)
		m, k := env.tr(e.Args[0]), env.tr(e.Args[1])
		mt, ok := types.Unalias(m.T).Underlying().(*types.Map)
		if !ok {
			cerr("inmap on non-map")
		}
		_, has, _, _, _ := g.mapComps(mt)
		return boolT(fmt.Sprintf("(and (not (= %s 0)) (select (select %s %s) %s))", m.S, g.get(env.st, has), m.S, k.S))
	}
	if env.pkg != nil {
		if m, ok := macros[relPkg(env.pkg.Path())+"."+name]; ok {
			if len(e.Args) != len(m.Params) {
				cerr("macro %s expects %d arguments", name, len(m.Params))
			}
			n := *env
			n.bound = map[string]Term{}
			for k, v := range env.bound {
				n.bound[k] = v
			}
			n.margs = map[string]Arg{}
			for k, v := range env.margs {
				n.margs[k] = v
			}
			for k, a := range e.Args {
				// pointer arguments bound to locations stay locations
				if id, ok := a.(*ast.Ident); ok {
					if v, ok := env.vars[id.Name]; ok && v.loc != nil {
						n.margs[m.Params[k]] = v
						continue
					}
					if v, ok := env.margs[id.Name]; ok {
						n.margs[m.Params[k]] = v
						continue
					}
				}
				n.bound[m.Params[k]] = env.tr(a)
			}
			return n.tr(m.Body)
		}
	}
	if sf, ok := g.specs.funcs[name]; ok {
		var as []string
		if len(e.Args) != len(sf.params) {
			cerr("spec function %s expects %d arguments", name, len(sf.params))
		}
		for k, a := range e.Args {
			t := env.tr(a)
			if t.Sort != sf.params[k] {
				// coerce untyped literal
				t, _ = env.coerce(t, Term{Sort: sf.params[k]})
				if t.Sort == "Nil" {
					t, _ = env.coerce(t, Term{Sort: sf.params[k]})
				}
			}
			if t.Sort != sf.params[k] {
				cerr("spec function %s argument %d: sort %s, want %s", name, k, t.Sort, sf.params[k])
			}
			as = append(as, t.S)
		}
		if len(as) == 0 {
			return Term{name, sf.result, sortType(sf.result)}
		}
		return Term{fmt.Sprintf("(%s %s)", name, strings.Join(as, " ")), sf.result, sortType(sf.result)}
	}
	cerr("unknown function %s in contract", exprString(e.Fun))
	return Term{}
}

// modLocs resolves a modifies clause to locations.
func (g *Gen) modLocs(env *Env, m *Clause) []modLoc {
	if c, ok := m.Expr.(*ast.CallExpr); ok {
		if id, ok := c.Fun.(*ast.Ident); ok && id.Name == "elems" {
			x := env.tr(c.Args[0])
			sl, ok := types.Unalias(x.T).Underlying().(*types.Slice)
			if !ok {
				cerr("elems() of non-slice")
			}
			comp, _ := g.elemComp(sl.Elem())
			return []modLoc{{whole: comp, exceptRef: fmt.Sprintf("(s_ref %s)", x.S)}}
		}
		if id, ok := c.Fun.(*ast.Ident); ok && id.Name == "allelems" {
			t := env.resolveType(c.Args[0])
			comp, _ := g.elemComp(t)
			return []modLoc{{whole: comp}}
		}
		if id, ok := c.Fun.(*ast.Ident); ok && id.Name == "received" {
			x := env.tr(c.Args[0])
			ct := types.Unalias(x.T).Underlying().(*types.Chan)
			cnt, _ := g.recvComp(ct)
			return []modLoc{{whole: cnt, exceptRef: x.S}}
		}
		if id, ok := c.Fun.(*ast.Ident); ok && id.Name == "closed" {
			x := env.tr(c.Args[0])
			g.compDecl("CHC", "(Array Int Bool)")
			return []modLoc{{whole: "CHC", exceptRef: x.S}}
		}
		if id, ok := c.Fun.(*ast.Ident); ok && id.Name == "sent" {
			x := env.tr(c.Args[0])
			ct := types.Unalias(x.T).Underlying().(*types.Chan)
			cnt, last := g.chanComps(ct)
			return []modLoc{{whole: cnt, exceptRef: x.S}, {whole: last, exceptRef: x.S}}
		}
		if id, ok := c.Fun.(*ast.Ident); ok && id.Name == "ghost" {
			lit, ok := c.Args[0].(*ast.BasicLit)
			if !ok {
				cerr("ghost: name must be a string literal")
			}
			nm, _ := strconv.Unquote(lit.Value)
			comp := "GH$" + sanitize(nm)
			g.compDecl(comp, "Int")
			return []modLoc{{whole: comp}}
		}
		if id, ok := c.Fun.(*ast.Ident); ok && id.Name == "mapof" {
			x := env.tr(c.Args[0])
			mt := types.Unalias(x.T).Underlying().(*types.Map)
			v, h, l, _, _ := g.mapComps(mt)
			return []modLoc{{whole: v, exceptRef: x.S}, {whole: h, exceptRef: x.S}, {whole: l, exceptRef: x.S}}
		}
	}
	l := env.lval(m.Expr)
	if l == nil {
		cerr("modifies: %s is not a location", m.Text)
	}
	return []modLoc{{loc: l}}
}

// modifiesComps maps a contract's modifies clauses to heap components by type only.
func (g *Gen) modifiesComps(fn interface{}, c *Contract) (map[string]bool, bool) {
	comps := map[string]bool{}
	for _, m := range c.Modifies {
		ok := g.modCompByShape(c, m, comps)
		if !ok {
			return nil, false
		}
	}
	return comps, true
}

func (g *Gen) modCompByShape(c *Contract, m *Clause, comps map[string]bool) bool {
	// Resolve using a throw-away environment with symbolic parameters.
	env := &Env{g: g, vars: map[string]Arg{}, st: &State{comp: map[string]string{}, base: "ws"}, pkg: g.pkgOfContract(c)}
	if fn := g.w.Funcs[c.Key]; fn != nil {
		for _, p := range fn.Params {
			env.vars[p.Name()] = Arg{t: Term{"ws$" + sanitize(p.Name()), g.d.sortOf(p.Type()), p.Type()}}
		}
	} else if i := strings.Index(c.Key, ".type:"); i >= 0 && env.pkg != nil {
		tn, ok := env.pkg.Scope().Lookup(c.Key[i+6:]).(*types.TypeName)
		if !ok {
			return false
		}
		sig, ok := tn.Type().Underlying().(*types.Signature)
		if !ok {
			return false
		}
		for k, n := range c.Params {
			if k < sig.Params().Len() {
				t := sig.Params().At(k).Type()
				env.vars[n] = Arg{t: Term{"ws$" + sanitize(n), g.d.sortOf(t), t}}
			}
		}
	} else {
		return false
	}
	ok := true
	// whatever the throw-away evaluation emits (type facts about its symbolic parameters) is discarded
	bodyLen := g.body.Len()
	declared := make(map[string]bool, len(g.declared))
	for k, v := range g.declared {
		declared[k] = v
	}
	defer func() {
		if g.body.Len() != bodyLen {
			txt := g.body.String()[:bodyLen]
			g.body.Reset()
			g.body.WriteString(txt)
			g.declared = declared
		}
	}()
	func() {
		defer func() {
			if r := recover(); r != nil {
				ok = false
			}
		}()
		for _, l := range g.modLocs(env, m) {
			if l.whole != "" {
				comps[l.whole] = true
			} else {
				comps[l.loc.comp] = true
			}
		}
	}()
	return ok
}

func (g *Gen) globalLoc(v *types.Var) *Loc {
	comp := "G$" + sanitize(relPkg(v.Pkg().Path())+"."+v.Name())
	es := g.d.sortOf(v.Type())
	g.compDecl(comp, "(Array Int "+es+")")
	return &Loc{kind: "cell", ref: "0", comp: comp, rsort: es, rtype: v.Type(), typ: v.Type()}
}

func (env *Env) lookupVar(name string) (Arg, bool) {
	if a, ok := env.margs[name]; ok {
		return a, true
	}
	if _, ok := env.bound[name]; ok {
		return Arg{}, false
	}
	a, ok := env.vars[name]
	return a, ok
}

func (env *Env) tryResolveType(e ast.Expr) (t types.Type) {
	defer func() {
		if r := recover(); r != nil {
			if _, ok := r.(specErr); ok {
				t = nil
				return
			}
			panic(r)
		}
	}()
	return env.resolveType(e)
}

type dbgName struct {
	v    ssa.Value
	addr bool
	dom  bool // v is the phi that merges all assignments of the name: valid only where its block dominates
}

// debugNames maps the source name of a local variable to the SSA value it denotes, for variables that
// denote exactly one value (or one cell) in the whole function. Ambiguous names are left out.
func (g *Gen) debugNames(fn *ssa.Function) map[string]dbgName {
	if g.dbgCache == nil {
		g.dbgCache = map[*ssa.Function]map[string]dbgName{}
	}
	if m, ok := g.dbgCache[fn]; ok {
		return m
	}
	m := map[string]dbgName{}
	bad := map[string]bool{}
	objOf := map[string]types.Object{}
	allVals := map[string][]ssa.Value{}
	anyAddr := map[string]bool{}
	shadow := map[string]bool{}
	for _, b := range fn.Blocks {
		for _, ins := range b.Instrs {
			dr, ok := ins.(*ssa.DebugRef)
			if !ok {
				continue
			}
			id, ok := dr.Expr.(*ast.Ident)
			if !ok || dr.Object() == nil {
				continue
			}
			if vo, isVar := dr.Object().(*types.Var); !isVar || vo.IsField() || vo.Pkg() == nil || vo.Parent() == vo.Pkg().Scope() {
				// only function-local variables: package-level names keep their package meaning
				continue
			}
			if _, isConst := dr.X.(*ssa.Const); isConst {
				bad[id.Name] = true
				continue
			}
			n := id.Name
			x, isAddr := dr.X, dr.IsAddr
			if ld, ok := x.(*ssa.UnOp); ok && !isAddr && ld.Op == token.MUL {
				if a, ok := ld.X.(*ssa.Alloc); ok {
					// a read of an addressable local: the name denotes the variable (its cell), not this one value
					x, isAddr = a, true
				}
			}
			allVals[n] = append(allVals[n], x)
			if isAddr {
				anyAddr[n] = true
			}
			if prev, ok := m[n]; ok {
				if objOf[n] != dr.Object() {
					shadow[n] = true
				}
				if prev.v != x || prev.addr != isAddr || objOf[n] != dr.Object() {
					bad[n] = true
				}
				continue
			}
			m[n] = dbgName{v: x, addr: isAddr}
			objOf[n] = dr.Object()
		}
	}
	for n := range bad {
		delete(m, n)
		// a variable assigned on several paths and merged by one phi (x := a; if c { x = b }): the name denotes the
		// merging phi wherever that phi's block dominates
		if shadow[n] {
			continue
		}
		if anyAddr[n] {
			// an addressable local (x := f(); ... x.field ...): the definition is recorded as a value, the uses through
			// the variable's cell - the name denotes the cell
			var cell *ssa.Alloc
			cells := 0
			for _, v := range allVals[n] {
				if a, ok := v.(*ssa.Alloc); ok && a.Comment == n && a != cell {
					cell = a
					cells++
				}
			}
			if cells == 1 {
				m[n] = dbgName{v: cell, addr: true}
			}
			continue
		}
		var cands []*ssa.Phi
		for _, v := range allVals[n] {
			phi, ok := v.(*ssa.Phi)
			if !ok {
				continue
			}
			reach := map[ssa.Value]bool{phi: true}
			var walk func(p *ssa.Phi, d int)
			walk = func(p *ssa.Phi, d int) {
				if d > 6 {
					return
				}
				for _, e := range p.Edges {
					if !reach[e] {
						reach[e] = true
						if ep, ok := e.(*ssa.Phi); ok {
							walk(ep, d+1)
						}
					}
				}
			}
			walk(phi, 0)
			all := true
			for _, o := range allVals[n] {
				if !reach[o] {
					all = false
				}
			}
			dup := false
			for _, c := range cands {
				if c == phi {
					dup = true
				}
			}
			if all && !dup {
				cands = append(cands, phi)
			}
		}
		if len(cands) == 1 {
			m[n] = dbgName{v: cands[0], dom: true}
		}
	}
	g.dbgCache[fn] = m
	return m
}

// rangedSlice finds the slice of the SSA pattern  idx = phi; next = idx+1; if next < len(slice)  of a range loop.
func rangedSlice(phi *ssa.Phi) ssa.Value {
	for _, r := range *phi.Referrers() {
		inc, ok := r.(*ssa.BinOp)
		if !ok || inc.Op != token.ADD || inc.X != phi {
			continue
		}
		for _, r2 := range *inc.Referrers() {
			cmp, ok := r2.(*ssa.BinOp)
			if !ok || cmp.Op != token.LSS || cmp.X != inc {
				continue
			}
			if call, ok := cmp.Y.(*ssa.Call); ok {
				if b, ok := call.Call.Value.(*ssa.Builtin); ok && b.Name() == "len" && len(call.Call.Args) == 1 {
					if _, isSl := types.Unalias(call.Call.Args[0].Type()).Underlying().(*types.Slice); isSl {
						return call.Call.Args[0]
					}
				}
			}
		}
	}
	return nil
}

func pathBase(p string) string {
	if i := strings.LastIndex(p, "/"); i >= 0 {
		return p[i+1:]
	}
	return p
}
