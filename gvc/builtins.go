package main

import (
	"sort"
	"go/constant"
	"fmt"
	"go/types"
	"strings"

	"golang.org/x/tools/go/ssa"
)

func (g *Gen) builtin(f *Frame, v ssa.Value, b *ssa.Builtin, cc *ssa.CallCommon, ins ssa.Instruction) {
	set := func(term string) {
		if v != nil {
			g.setVal(f, v, term)
		}
	}
	switch b.Name() {
	case "len":
		x := g.val(f, cc.Args[0])
		switch x.Sort {
		case "Slice":
			set(fmt.Sprintf("(s_len %s)", x.S))
		case "String":
			set(fmt.Sprintf("(str.len %s)", x.S))
		case "Int": // map or chan
			if mt, ok := types.Unalias(cc.Args[0].Type()).Underlying().(*types.Map); ok {
				_, _, ln, _, _ := g.mapComps(mt)
				set(fmt.Sprintf("(ite (= %[1]s 0) 0 (select %[2]s %[1]s))", x.S, g.get(f.st, ln)))
				g.assume(f.en, fmt.Sprintf("(<= 0 %s)", f.vals[v].S))
			} else {
				unsupp("len of %s", cc.Args[0].Type())
			}
		default:
			if at, ok := types.Unalias(cc.Args[0].Type()).Underlying().(*types.Array); ok {
				set(fmt.Sprint(at.Len()))
			} else {
				unsupp("len of %s", cc.Args[0].Type())
			}
		}
	case "cap":
		x := g.val(f, cc.Args[0])
		if x.Sort != "Slice" {
			unsupp("cap of %s", cc.Args[0].Type())
		}
		set(fmt.Sprintf("(s_cap %s)", x.S))
	case "append":
		g.builtinAppend(f, v, cc, ins)
	case "copy":
		dst, src := g.val(f, cc.Args[0]), g.val(f, cc.Args[1])
		el := types.Unalias(cc.Args[0].Type()).Underlying().(*types.Slice).Elem()
		comp, es := g.elemComp(el)
		n := g.fresh("copyn")
		srcLen := fmt.Sprintf("(s_len %s)", src.S)
		if src.Sort == "String" {
			srcLen = fmt.Sprintf("(str.len %s)", src.S)
		}
		g.define(n, "Int", fmt.Sprintf("(ite (< (s_len %s) %s) (s_len %s) %s)", dst.S, srcLen, dst.S, srcLen))
		oldh := g.get(f.st, comp)
		arr := g.fresh("copied")
		g.declare(arr, "(Array Int "+es+")")
		if src.Sort == "Slice" {
			g.emit("(assert (forall ((k Int)) (! (= (select %[1]s k) (ite (and (<= (s_off %[2]s) k) (< k (+ (s_off %[2]s) %[3]s))) (select (select %[4]s (s_ref %[5]s)) (+ (s_off %[5]s) (- k (s_off %[2]s)))) (select (select %[4]s (s_ref %[2]s)) k))) :pattern ((select %[1]s k)))))",
				arr, dst.S, n, oldh, src.S)
		}
		g.frameWrite(comp, fmt.Sprintf("(s_ref %s)", dst.S))
		g.set(f.st, comp, fmt.Sprintf("(store %s (s_ref %s) %s)", oldh, dst.S, arr))
		set(n)
	case "close":
		// close(ch): ghost flag; closing a nil or an already closed channel panics
		ch := g.val(f, cc.Args[0])
		g.compDecl("CHC", "(Array Int Bool)")
		g.safety(f, fmt.Sprintf("(and (not (= %s 0)) (not (select %s %s)))", ch.S, g.get(f.st, "CHC"), ch.S), "close-chan", ins.Pos())
		g.frameWrite("CHC", ch.S)
		g.set(f.st, "CHC", fmt.Sprintf("(store %s %s true)", g.get(f.st, "CHC"), ch.S))
	case "delete":
		m, k := g.val(f, cc.Args[0]), g.val(f, cc.Args[1])
		mt := types.Unalias(cc.Args[0].Type()).Underlying().(*types.Map)
		_, has, ln, _, _ := g.mapComps(mt)
		hh, hl := g.get(f.st, has), g.get(f.st, ln)
		g.frameWrite(has, m.S)
		g.set(f.st, ln, fmt.Sprintf("(store %[1]s %[2]s (ite (select (select %[3]s %[2]s) %[4]s) (- (select %[1]s %[2]s) 1) (select %[1]s %[2]s)))", hl, m.S, hh, k.S))
		g.set(f.st, has, fmt.Sprintf("(store %[1]s %[2]s (store (select %[1]s %[2]s) %[3]s false))", hh, m.S, k.S))
	case "recover":
		var ctx *panicCtx
		if len(g.pctx) > 0 {
			ctx = g.pctx[len(g.pctx)-1]
		}
		// recover only has effect when called directly by the deferred function
		if ctx != nil && f.parent != nil && !ctx.recovered {
			ctx.recovered = true
			set(ctx.val)
			if v != nil {
				// go >= 1.21: panic(nil) is turned into a *runtime.PanicNilError, so a recovered value is never nil
				g.assume(f.en, fmt.Sprintf("(not (= (i_tag %s) 0))", f.vals[v].S))
				g.trusted["recover() returns a non-nil value while panicking (go1.21+ panic(nil) semantics; go.mod requires go 1.23)"] = true
			}
		} else {
			set(nilIface)
		}
	case "print", "println":
	case "min", "max":
		x, y := g.val(f, cc.Args[0]), g.val(f, cc.Args[1])
		if x.Sort != "Int" || len(cc.Args) != 2 {
			unsupp("min/max on %s", x.Sort)
		}
		op := "<"
		if b.Name() == "max" {
			op = ">"
		}
		set(fmt.Sprintf("(ite (%s %s %s) %s %s)", op, x.S, y.S, x.S, y.S))
	case "ssa:wrapnilchk":
		x := g.val(f, cc.Args[0])
		g.safety(f, fmt.Sprintf("(not (= %s 0))", x.S), "nil-deref", ins.Pos())
		set(x.S)
	default:
		unsupp("builtin %s", b.Name())
	}
}

func (g *Gen) builtinAppend(f *Frame, v ssa.Value, cc *ssa.CallCommon, ins ssa.Instruction) {
	s := g.val(f, cc.Args[0])
	el := types.Unalias(cc.Args[0].Type()).Underlying().(*types.Slice).Elem()
	comp, es := g.elemComp(el)
	// SSA form: append(s, t...) where t is a slice (possibly built from a fresh array of the variadic args)
	xs := g.val(f, cc.Args[1])
	var n string
	if xs.Sort == "String" {
		n = fmt.Sprintf("(str.len %s)", xs.S)
	} else {
		n = fmt.Sprintf("(s_len %s)", xs.S)
	}
	newLen := g.defFresh("applen", "Int", fmt.Sprintf("(+ (s_len %s) %s)", s.S, n))
	inplace := g.defFresh("inplace", "Bool", fmt.Sprintf("(and (<= %s (s_cap %s)) (not (= (s_ref %s) 0)))", newLen, s.S, s.S))
	fresh := g.alloc(f.st, f.en)
	ncap := g.fresh("ncap")
	g.declare(ncap, "Int")
	g.assume(f.en, fmt.Sprintf("(>= %s %s)", ncap, newLen))
	res := g.defFresh("appres", "Slice", fmt.Sprintf("(ite %[1]s (mk_slice (s_ref %[2]s) (s_off %[2]s) %[3]s (s_cap %[2]s)) (mk_slice %[4]s (s_off %[2]s) %[3]s %[5]s))", inplace, s.S, newLen, fresh, ncap))
	oldh := g.get(f.st, comp)
	base := fmt.Sprintf("(select %s (s_ref %s))", oldh, s.S)
	// new backing content: base with appended elements written at off+len..
	var content string
	single := g.singleElemSlice(f, cc.Args[1])
	if single != nil {
		content = base
		for k, e := range single {
			content = fmt.Sprintf("(store %s (eidx (s_off %s) (+ (s_len %s) %d)) %s)", content, s.S, s.S, k, e)
		}
	} else {
		arr := g.fresh("appended")
		g.declare(arr, "(Array Int "+es+")")
		src := fmt.Sprintf("(select (select %s (s_ref %s)) (+ (s_off %s) (- k (+ (s_off %s) (s_len %s)))))", oldh, xs.S, xs.S, s.S, s.S)
		if xs.Sort == "String" {
			src = fmt.Sprintf("(str.to_code (str.at %s (- k (+ (s_off %s) (s_len %s)))))", xs.S, s.S, s.S)
		}
		g.emit("(assert (forall ((k Int)) (! (= (select %[1]s k) (ite (and (<= (+ (s_off %[2]s) (s_len %[2]s)) k) (< k (+ (s_off %[2]s) %[3]s))) %[4]s (select %[5]s k))) :pattern ((select %[1]s k)))))",
			arr, s.S, newLen, src, base)
		content = arr
	}
	g.frameWrite(comp, fmt.Sprintf("(s_ref %s)", res))
	g.set(f.st, comp, fmt.Sprintf("(store %s (s_ref %s) %s)", oldh, res, content))
	if v != nil {
		g.setVal(f, v, res)
	}
}

// singleElemSlice recognises the SSA idiom for variadic arguments: new [n]T; stores; slice t[:] — returns the element terms.
func (g *Gen) singleElemSlice(f *Frame, v ssa.Value) []string {
	sl, ok := v.(*ssa.Slice)
	if !ok {
		return nil
	}
	al, ok := sl.X.(*ssa.Alloc)
	if !ok || sl.Low != nil || sl.High != nil {
		return nil
	}
	arr, ok := types.Unalias(ptrElem(al.Type())).Underlying().(*types.Array)
	if !ok || arr.Len() > 8 {
		return nil
	}
	base := g.val(f, al)
	comp, _ := g.elemComp(arr.Elem())
	var out []string
	for k := int64(0); k < arr.Len(); k++ {
		out = append(out, fmt.Sprintf("(select (select %s %s) %d)", g.get(f.st, comp), base.S, k))
	}
	return out
}

// ---- external functions ----

func extName(fn *ssa.Function) string {
	if fn.Signature.Recv() != nil {
		return fn.Pkg.Pkg.Path() + "." + recvString(fn.Signature.Recv().Type()) + "." + fn.Name()
	}
	if fn.Pkg == nil {
		return fn.String()
	}
	return fn.Pkg.Pkg.Path() + "." + fn.Name()
}

func (g *Gen) external(f *Frame, fn *ssa.Function, args []Arg, ins ssa.Instruction) []Term {
	name := extName(fn)
	sig := fn.Signature
	if c := g.contracts["ext."+name]; c != nil {
		return g.applyContract(f, c, c.Params, args, sig, ins, fn.Name())
	}
	// printf-style calls: a format that is not a compile-time constant must be free of '%' (otherwise data is
	// interpreted as formatting directives and the reported text is no longer the text that was to be reported)
	if k, isFmt := fmtFuncs[name]; isFmt && k < len(args) {
		if ci, ok := ins.(ssa.CallInstruction); ok && k < len(ci.Common().Args) {
			if !constFormat(ci.Common().Args[k], 0) && !g.forwardsOwnFormat(f, ci.Common().Args[k]) {
				g.safety(f, fmt.Sprintf("(not (str.contains %s \"%%\"))", args[k].t.S), "format-string", ins.Pos())
			}
		}
	}
	a := func(k int) string { return args[k].t.S }
	one := func(s string) []Term {
		t := sig.Results().At(0).Type()
		return []Term{{s, g.d.sortOf(t), t}}
	}
	switch name {
	case "strings.HasPrefix":
		return one(fmt.Sprintf("(str.prefixof %s %s)", a(1), a(0)))
	case "strings.HasSuffix":
		return one(fmt.Sprintf("(str.suffixof %s %s)", a(1), a(0)))
	case "strings.Contains":
		return one(fmt.Sprintf("(str.contains %s %s)", a(0), a(1)))
	case "strings.Index":
		return one(fmt.Sprintf("(str.indexof %s %s 0)", a(0), a(1)))
	case "math.IsNaN":
		return one(fmt.Sprintf("(fp.isNaN %s)", a(0)))
	case "math.IsInf":
		return one(fmt.Sprintf("(and (fp.isInfinite %[1]s) (or (= %[2]s 0) (and (> %[2]s 0) (fp.isPositive %[1]s)) (and (< %[2]s 0) (fp.isNegative %[1]s))))", a(0), a(1)))
	case "math.Inf":
		return one(fmt.Sprintf("(ite (>= %s 0) (_ +oo 11 53) (_ -oo 11 53))", a(0)))
	case "math.NaN":
		return one("(_ NaN 11 53)")
	case "math.Floor":
		return one(fmt.Sprintf("(fp.roundToIntegral RTN %s)", a(0)))
	case "math.Ceil":
		return one(fmt.Sprintf("(fp.roundToIntegral RTP %s)", a(0)))
	case "math.Trunc":
		return one(fmt.Sprintf("(fp.roundToIntegral RTZ %s)", a(0)))
	case "math.Abs":
		return one(fmt.Sprintf("(fp.abs %s)", a(0)))
	case "math.Signbit":
		return one(fmt.Sprintf("(fp.isNegative %s)", a(0)))
	case "fmt.Sprintf":
		// constant format made of %s (strings), %d / %v (integers, strings) and %%: the result is the concatenation
		if ci, ok := ins.(ssa.CallInstruction); ok && len(ci.Common().Args) == 2 {
			if s, ok := g.sprintfModel(f, ci.Common().Args[0], ci.Common().Args[1]); ok {
				g.trusted["fmt.Sprintf with a constant format of plain %s/%d/%v verbs over strings and integers: the concatenation of the literal parts and the operands (decimal for integers)"] = true
				return one(s)
			}
		}
	case "fmt.Errorf", "errors.New":
		rs := g.freshResults(f, "err", sig)
		g.assume(f.en, fmt.Sprintf("(not (= (i_tag %s) 0))", rs[0].S))
		return rs
	case "sort.Strings", "slices.Sort[[]string string]", "slices.Sort":
		if len(args) == 1 && args[0].t.Sort == "Slice" {
			comp, _ := g.elemComp(types.Typ[types.String])
			n := g.fresh(comp + ".sorted")
			g.declare(n, g.compSort[comp])
			oldc := g.get(f.st, comp)
			g.frameWrite(comp, fmt.Sprintf("(s_ref %s)", a(0)))
			f.st.comp[comp] = n
			g.emit("(assert (=> %s (forall ((r Int)) (! (=> (not (= r (s_ref %s))) (= (select %s r) (select %s r))) :pattern ((select %s r))))))", f.en, a(0), n, oldc, n)
			g.trusted["sort: permutes the slice's elements (only the frame is modelled)"] = true
			return nil
		}
	}
	// constructors of external packages: a fresh, non-nil object
	if sig.Results().Len() == 1 && strings.HasPrefix(fn.Name(), "New") {
		if st := ptrElem(sig.Results().At(0).Type()); st != nil && isStruct(st) {
			r := g.alloc(f.st, f.en)
			g.allocEmbedded(f, r, st, 0)
			g.trusted["external constructor "+name+": returns a freshly allocated non-nil object (embedded pointers too), never panics"] = true
			rt := sig.Results().At(0).Type()
			return []Term{{r, "Int", rt}}
		}
	}
	// pure scalar functions: uninterpreted but functional
	pure := sig.Results().Len() >= 1
	var sorts []string
	var ts []string
	for k, p := range args {
		if p.loc != nil {
			pure = false
			break
		}
		switch p.t.Sort {
		case "Int", "Bool", "String", "F64", "F32":
			if _, isPtr := types.Unalias(p.t.T).Underlying().(*types.Basic); !isPtr {
				if p.t.Sort == "Int" {
					pure = false
				}
			}
			sorts = append(sorts, p.t.Sort)
			ts = append(ts, p.t.S)
		default:
			pure = false
		}
		_ = k
	}
	if pure && extPure(name) {
		var rs []Term
		for k := 0; k < sig.Results().Len(); k++ {
			rt := sig.Results().At(k).Type()
			rsort := g.d.sortOf(rt)
			un := fmt.Sprintf("ext$%s", sanitize(name))
			if sig.Results().Len() > 1 {
				un = fmt.Sprintf("ext$%s$%d", sanitize(name), k)
			}
			if _, inSpec := g.specs.funcs[un]; !inSpec {
				g.d.add("fn:"+un, fmt.Sprintf("(declare-fun %s (%s) %s)", un, strings.Join(sorts, " "), rsort))
			}
			app := un
			if len(ts) > 0 {
				app = fmt.Sprintf("(%s %s)", un, strings.Join(ts, " "))
			}
			tm := Term{g.defFresh(f.prefix+"ext", rsort, app), rsort, rt}
			g.typeFacts(f.en, tm, g.now(f.st), true)
			rs = append(rs, tm)
		}
		g.trusted["external "+name+": pure function of its arguments, never panics"] = true
		return rs
	}
	// a method of an external (non standard library) type with a pointer receiver that is not an accessor may rewrite
	// the receiver: everything reachable from the receiver through the types of its own package is havocked
	if recv := sig.Recv(); recv != nil && fn.Pkg != nil && strings.Contains(fn.Pkg.Pkg.Path(), ".") && !extAccessor(fn.Name()) {
		if _, isPtr := types.Unalias(recv.Type()).Underlying().(*types.Pointer); isPtr {
			comps := map[string]bool{}
			g.reachableComps(recv.Type(), fn.Pkg.Pkg, map[string]bool{}, comps)
			var cs []string
			for c := range comps {
				cs = append(cs, c)
			}
			sort.Strings(cs)
			g.cur = f
			for _, c := range cs {
				g.frameWrite(c, "(- 0 999999999)")
				n := g.fresh(c + ".hv")
				g.declare(n, g.compSort[c])
				f.st.comp[c] = n
				g.verBound[n] = g.now(f.st)
			}
			g.trusted["external "+name+": may rewrite every object of its package's types reachable from its receiver (all of them havocked), result unconstrained, never panics"] = true
			return g.freshResults(f, fn.Name(), sig)
		}
	}
	g.trusted["external "+name+": result unconstrained, no repository object modified, never panics"] = true
	return g.freshResults(f, fn.Name(), sig)
}

// extAccessor: method names of generated / library types that only read (protobuf getters, Stringers, reflection)
func extAccessor(n string) bool {
	for _, p := range []string{"Get", "Is", "Has", "String", "Error", "ProtoReflect", "Descriptor", "Len", "Unwrap"} {
		if strings.HasPrefix(n, p) {
			return true
		}
	}
	return false
}

// reachableComps collects the heap components of everything reachable from a value of type t through struct types
// declared in pkg (their fields, and the slices, maps and pointers those fields hold).
func (g *Gen) reachableComps(t types.Type, pkg *types.Package, seen map[string]bool, out map[string]bool) {
	key := types.TypeString(t, nil)
	if seen[key] {
		return
	}
	seen[key] = true
	switch u := types.Unalias(t).Underlying().(type) {
	case *types.Pointer:
		if isStruct(u.Elem()) {
			g.reachableComps(u.Elem(), pkg, seen, out)
		} else {
			c, _ := g.cellComp(u.Elem())
			out[c] = true
			g.reachableComps(u.Elem(), pkg, seen, out)
		}
	case *types.Struct:
		if n, ok := types.Unalias(t).(*types.Named); !ok || n.Obj().Pkg() != pkg {
			return
		}
		for i := 0; i < u.NumFields(); i++ {
			c, _, ft := g.fieldComp(t, i)
			out[c] = true
			g.reachableComps(ft, pkg, seen, out)
		}
	case *types.Slice:
		c, _ := g.elemComp(u.Elem())
		out[c] = true
		g.reachableComps(u.Elem(), pkg, seen, out)
	case *types.Map:
		v, h, l, _, _ := g.mapComps(u)
		out[v], out[h], out[l] = true, true, true
		g.reachableComps(u.Elem(), pkg, seen, out)
	}
}

func extPure(name string) bool {
	for _, p := range []string{"strings.", "strconv.", "math.", "unicode.", "unicode/utf8.", "path.", "regexp.MatchString"} {
		if strings.HasPrefix(name, p) {
			return true
		}
	}
	return false
}

// allocEmbedded gives the embedded pointer-to-struct fields of a freshly constructed external object fresh targets.
func (g *Gen) allocEmbedded(f *Frame, ref string, st types.Type, depth int) {
	if depth > 2 {
		return
	}
	u := types.Unalias(st).Underlying().(*types.Struct)
	for k := 0; k < u.NumFields(); k++ {
		fl := u.Field(k)
		if !fl.Embedded() {
			continue
		}
		if inner := ptrElem(fl.Type()); inner != nil && isStruct(inner) {
			r2 := g.alloc(f.st, f.en)
			g.cur = f
			g.write(f.st, g.fieldLoc(ref, st, k), r2)
			g.allocEmbedded(f, r2, inner, depth+1)
		}
	}
}

// constFormat: the format operand is a compile-time constant, or a choice (phi) between such constants.
func constFormat(v ssa.Value, depth int) bool {
	switch x := v.(type) {
	case *ssa.Const:
		return true
	case *ssa.Phi:
		if depth > 3 {
			return false
		}
		for _, e := range x.Edges {
			if !constFormat(e, depth+1) {
				return false
			}
		}
		return true
	}
	return false
}

// variadicOperands recognises the SSA idiom for a variadic ...interface{} argument (new [n]any "varargs"; stores of
// make-interface values; slice) and returns the boxed operands in order.
func variadicOperands(v ssa.Value) ([]ssa.Value, bool) {
	if c, ok := v.(*ssa.Const); ok && c.Value == nil {
		return nil, true
	}
	sl, ok := v.(*ssa.Slice)
	if !ok || sl.Low != nil || sl.High != nil {
		return nil, false
	}
	al, ok := sl.X.(*ssa.Alloc)
	if !ok || al.Comment != "varargs" {
		return nil, false
	}
	arr, ok := types.Unalias(ptrElem(al.Type())).Underlying().(*types.Array)
	if !ok {
		return nil, false
	}
	out := make([]ssa.Value, arr.Len())
	for _, r := range *al.Referrers() {
		ia, ok := r.(*ssa.IndexAddr)
		if !ok {
			continue
		}
		c, ok := ia.Index.(*ssa.Const)
		if !ok {
			return nil, false
		}
		k := c.Int64()
		for _, r2 := range *ia.Referrers() {
			st, ok := r2.(*ssa.Store)
			if !ok || st.Addr != ia {
				return nil, false
			}
			mi, ok := st.Val.(*ssa.MakeInterface)
			if !ok || out[k] != nil {
				return nil, false
			}
			out[k] = mi.X
		}
	}
	for _, o := range out {
		if o == nil {
			return nil, false
		}
	}
	return out, true
}

// sprintfModel: the SMT string a fmt.Sprintf call returns, for a constant format of plain verbs over method-less
// string and integer operands.
func (g *Gen) sprintfModel(f *Frame, format, rest ssa.Value) (string, bool) {
	fc, ok := format.(*ssa.Const)
	if !ok || fc.Value == nil || fc.Value.Kind() != constant.String {
		return "", false
	}
	ops, ok := variadicOperands(rest)
	if !ok {
		return "", false
	}
	fs := constant.StringVal(fc.Value)
	var parts []string
	lit := ""
	flush := func() {
		if lit != "" {
			parts = append(parts, smtString(lit))
			lit = ""
		}
	}
	k := 0
	for i := 0; i < len(fs); i++ {
		if fs[i] != '%' {
			lit += string(fs[i])
			continue
		}
		if i+1 >= len(fs) {
			return "", false
		}
		i++
		verb := fs[i]
		if verb == '%' {
			lit += "%"
			continue
		}
		if k >= len(ops) {
			return "", false
		}
		op := ops[k]
		k++
		if types.NewMethodSet(op.Type()).Len() != 0 || types.NewMethodSet(types.NewPointer(op.Type())).Len() != 0 {
			return "", false
		}
		b, ok := types.Unalias(op.Type()).Underlying().(*types.Basic)
		if !ok {
			return "", false
		}
		t := g.val(f, op)
		switch {
		case b.Info()&types.IsString != 0 && (verb == 's' || verb == 'v'):
			flush()
			parts = append(parts, t.S)
		case b.Info()&types.IsInteger != 0 && (verb == 'd' || verb == 'v') && t.Sort == "Int":
			flush()
			parts = append(parts, fmt.Sprintf("(itoa %s)", t.S))
		default:
			return "", false
		}
	}
	if k != len(ops) {
		return "", false
	}
	flush()
	switch len(parts) {
	case 0:
		return "\"\"", true
	case 1:
		return parts[0], true
	}
	return "(str.++ " + strings.Join(parts, " ") + ")", true
}
