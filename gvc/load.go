package main

import (
	"fmt"
	"go/ast"
	"go/token"
	"go/types"
	"os"
	"os/exec"
	"path/filepath"
	"sort"
	"strings"

	"golang.org/x/tools/go/packages"
	"golang.org/x/tools/go/ssa"
	"golang.org/x/tools/go/ssa/ssautil"
)

const modPath = "github.com/sdcio/yang-parser"

// World is everything loaded from /repo's working tree for one run.
type World struct {
	RepoDir string
	Scratch string
	Fset    *token.FileSet
	Pkgs    []*packages.Package
	Prog    *ssa.Program
	SSAPkgs map[string]*ssa.Package // by import path
	PkgByP  map[string]*packages.Package
	Overlay map[string][]byte
	sites   map[*ssa.Function][]ssa.CallInstruction
	Funcs   map[string]*ssa.Function // by qualified short name, see funcKey
	ctypes  []types.Type
	tbn     map[string]types.Type
	inn     map[*ssa.Global]bool
	immut   map[*ssa.Global]bool
}

func verifDir() string {
	if d := os.Getenv("GVC_VERIF"); d != "" {
		return d
	}
	exe, err := os.Executable()
	if err == nil {
		return filepath.Dir(filepath.Dir(exe))
	}
	return "/verif"
}

func repoDir() string {
	if d := os.Getenv("GVC_REPO"); d != "" {
		return d
	}
	return "/repo"
}

func goEnv() []string {
	env := []string{}
	for _, e := range os.Environ() {
		if strings.HasPrefix(e, "GOFLAGS=") || strings.HasPrefix(e, "GOPROXY=") ||
			strings.HasPrefix(e, "GOSUMDB=") || strings.HasPrefix(e, "GOTOOLCHAIN=") {
			continue
		}
		env = append(env, e)
	}
	env = append(env, "GOFLAGS=-mod=mod", "GOPROXY=off")
	return env
}

// genLeafref runs goyacc on leafref.y into the scratch directory.
func genLeafref(repo, scratch string) (string, error) {
	out := filepath.Join(scratch, "leafref.go")
	y := filepath.Join(repo, "xpath/grammars/leafref/leafref.y")
	cmd := exec.Command(filepath.Join(verifDir(), "bin", "goyacc"), "-p", "leafref", "-o", out, y)
	cmd.Dir = scratch
	b, err := cmd.CombinedOutput()
	if err != nil {
		return "", fmt.Errorf("goyacc leafref.y: %v\n%s", err, b)
	}
	return out, nil
}

func loadWorld(patterns []string) (*World, error) {
	repo := repoDir()
	scratch, err := os.MkdirTemp("/var/tmp", "gvc-")
	if err != nil {
		return nil, err
	}
	w := &World{RepoDir: repo, Scratch: scratch, Fset: token.NewFileSet(),
		SSAPkgs: map[string]*ssa.Package{}, PkgByP: map[string]*packages.Package{},
		Overlay: map[string][]byte{}, Funcs: map[string]*ssa.Function{}}
	target := filepath.Join(repo, "xpath/grammars/leafref/leafref.go")
	if _, err := os.Stat(target); err != nil {
		lf, err := genLeafref(repo, scratch)
		if err != nil {
			return nil, err
		}
		b, err := os.ReadFile(lf)
		if err != nil {
			return nil, err
		}
		w.Overlay[target] = b
	}
	if len(patterns) == 0 {
		patterns = []string{"./..."}
	}
	cfg := &packages.Config{
		Mode:       packages.LoadSyntax,
		Dir:        repo,
		Fset:       w.Fset,
		Env:        goEnv(),
		BuildFlags: []string{"-tags=verif"},
		Overlay:    w.Overlay,
		Tests:      false,
	}
	pkgs, err := packages.Load(cfg, patterns...)
	if err != nil {
		return nil, err
	}
	nerr := 0
	for _, p := range pkgs {
		for _, e := range p.Errors {
			fmt.Fprintf(os.Stderr, "load error: %s: %v\n", p.PkgPath, e)
			nerr++
		}
	}
	if nerr > 0 {
		return nil, fmt.Errorf("%d load errors", nerr)
	}
	w.Pkgs = pkgs
	prog, spkgs := ssautil.Packages(pkgs, ssa.InstantiateGenerics|ssa.GlobalDebug)
	w.Prog = prog
	for i, sp := range spkgs {
		if sp == nil {
			continue
		}
		sp.Build()
		w.SSAPkgs[pkgs[i].PkgPath] = sp
		w.PkgByP[pkgs[i].PkgPath] = pkgs[i]
	}
	for _, sp := range w.SSAPkgs {
		for fn := range ssautil.AllFunctions(prog) {
			_ = fn
			break
		}
		w.indexPkg(sp)
	}
	return w, nil
}

func (w *World) Close() {
	if w.Scratch != "" {
		os.RemoveAll(w.Scratch)
	}
}

// relPkg returns the package path relative to the module ("xpath", "schema", ...).
func relPkg(path string) string {
	if path == modPath {
		return "."
	}
	return strings.TrimPrefix(path, modPath+"/")
}

// funcKey: "<relpkg>.<name>", "<relpkg>.(*T).<name>", "<relpkg>.(T).<name>", anonymous: parentKey+"$k".
func funcKey(fn *ssa.Function) string {
	if fn.Parent() != nil {
		name := fn.Name() // e.g. "Eq$1"
		pn := fn.Parent().Name()
		suffix := strings.TrimPrefix(name, pn)
		return funcKey(fn.Parent()) + suffix
	}
	if fn.Pkg == nil {
		return fn.String()
	}
	rp := relPkg(fn.Pkg.Pkg.Path())
	if recv := fn.Signature.Recv(); recv != nil {
		return rp + "." + recvString(recv.Type()) + "." + fn.Name()
	}
	return rp + "." + fn.Name()
}

func (w *World) indexPkg(sp *ssa.Package) {
	var add func(fn *ssa.Function)
	add = func(fn *ssa.Function) {
		if fn == nil || fn.Blocks == nil {
			return
		}
		w.Funcs[funcKey(fn)] = fn
		for _, a := range fn.AnonFuncs {
			add(a)
		}
	}
	for _, m := range sp.Members {
		switch m := m.(type) {
		case *ssa.Function:
			add(m)
		case *ssa.Type:
			for _, t := range typeAndPtr(m) {
				ms := w.Prog.MethodSets.MethodSet(t)
				for i := 0; i < ms.Len(); i++ {
					fn := w.Prog.MethodValue(ms.At(i))
					if fn != nil && fn.Pkg == sp && fn.Synthetic == "" {
						add(fn)
					}
				}
			}
		}
	}
}

func (w *World) funcNames() []string {
	var ks []string
	for k := range w.Funcs {
		ks = append(ks, k)
	}
	sort.Strings(ks)
	return ks
}

// sourceOf returns the ast.File list for a package path.
func (w *World) syntax(pkgPath string) []*ast.File {
	if p := w.PkgByP[pkgPath]; p != nil {
		return p.Syntax
	}
	return nil
}
