package main

import (
	"encoding/json"
	"fmt"
	"go/ast"
	"go/constant"
	"go/token"
	"go/types"
	"sort"
	"strings"

	"golang.org/x/tools/go/ssa"
)

// TVal is a value of a package-level table literal, evaluated from the AST with go/types' constant folding.
type TVal struct {
	Const  constant.Value // scalar constant
	Type   types.Type
	Fields []*TVal         // struct literal
	Keys   []constant.Value // map or indexed array/slice literal
	Elems  []*TVal
	Ident  string // reference to a package-level function or variable (not constant)
	Pos    token.Pos
	Exact  string // source text of a float literal (for exact rational comparison)
	KeyT   types.Type
}

// tableLiteral returns the evaluated initialiser of the package-level variable, or nil.
func (w *World) tableLiteral(pkgPath, name string) *TVal {
	p := w.PkgByP[pkgPath]
	if p == nil {
		return nil
	}
	for _, f := range p.Syntax {
		for _, d := range f.Decls {
			gd, ok := d.(*ast.GenDecl)
			if !ok || gd.Tok != token.VAR {
				continue
			}
			for _, sp := range gd.Specs {
				vs := sp.(*ast.ValueSpec)
				for i, n := range vs.Names {
					if n.Name == name && i < len(vs.Values) {
						return w.evalLit(p.TypesInfo, vs.Values[i], p.TypesInfo.TypeOf(vs.Values[i]))
					}
				}
			}
		}
	}
	return nil
}

type typesInfo interface {
	TypeOf(e ast.Expr) types.Type
}

func (w *World) evalLit(info *types.Info, e ast.Expr, t types.Type) *TVal {
	if tv, ok := info.Types[e]; ok && tv.Value != nil {
		v := &TVal{Const: tv.Value, Type: tv.Type, Pos: e.Pos()}
		if bl, ok := e.(*ast.BasicLit); ok && bl.Kind == token.FLOAT {
			v.Exact = bl.Value
		}
		if ue, ok := e.(*ast.UnaryExpr); ok && ue.Op == token.SUB {
			if bl, ok := ue.X.(*ast.BasicLit); ok && (bl.Kind == token.FLOAT || bl.Kind == token.INT) {
				v.Exact = "-" + bl.Value
			}
		}
		return v
	}
	switch x := e.(type) {
	case *ast.ParenExpr:
		return w.evalLit(info, x.X, t)
	case *ast.UnaryExpr:
		if x.Op == token.AND {
			return w.evalLit(info, x.X, ptrElemOr(t))
		}
	case *ast.Ident:
		return &TVal{Ident: x.Name, Type: info.TypeOf(x), Pos: e.Pos()}
	case *ast.SelectorExpr:
		return &TVal{Ident: types.ExprString(x), Type: info.TypeOf(x), Pos: e.Pos()}
	case *ast.CallExpr:
		// e.g. NewFnSym("boolean", xBoolean, []DatumTypeChecker{...}, TypeIsBool): keep the arguments
		v := &TVal{Ident: "call:" + types.ExprString(x.Fun), Type: info.TypeOf(x), Pos: e.Pos()}
		for _, a := range x.Args {
			v.Elems = append(v.Elems, w.evalLit(info, a, info.TypeOf(a)))
		}
		return v
	case *ast.CompositeLit:
		ct := info.TypeOf(x)
		if ct == nil {
			ct = t
		}
		v := &TVal{Type: ct, Pos: e.Pos()}
		switch u := types.Unalias(ct).Underlying().(type) {
		case *types.Struct:
			v.Fields = make([]*TVal, u.NumFields())
			for i, el := range x.Elts {
				if kv, ok := el.(*ast.KeyValueExpr); ok {
					fname := kv.Key.(*ast.Ident).Name
					for k := 0; k < u.NumFields(); k++ {
						if u.Field(k).Name() == fname {
							v.Fields[k] = w.evalLit(info, kv.Value, u.Field(k).Type())
						}
					}
				} else if i < u.NumFields() {
					v.Fields[i] = w.evalLit(info, el, u.Field(i).Type())
				}
			}
		case *types.Map:
			for _, el := range x.Elts {
				kv := el.(*ast.KeyValueExpr)
				ktv := info.Types[kv.Key]
				v.Keys = append(v.Keys, ktv.Value)
				v.Elems = append(v.Elems, w.evalLit(info, kv.Value, u.Elem()))
			}
		case *types.Slice, *types.Array:
			var et types.Type
			if s, ok := u.(*types.Slice); ok {
				et = s.Elem()
			} else {
				et = u.(*types.Array).Elem()
			}
			next := int64(0)
			for _, el := range x.Elts {
				val := el
				if kv, ok := el.(*ast.KeyValueExpr); ok {
					if ktv, ok := info.Types[kv.Key]; ok && ktv.Value != nil {
						next, _ = constant.Int64Val(constant.ToInt(ktv.Value))
						if _, named := types.Unalias(ktv.Type).(*types.Named); named {
							v.KeyT = ktv.Type
						}
					}
					val = kv.Value
				}
				v.Keys = append(v.Keys, constant.MakeInt64(next))
				v.Elems = append(v.Elems, w.evalLit(info, val, et))
				next++
			}
		}
		return v
	}
	return &TVal{Ident: "?" + types.ExprString(e), Type: t, Pos: e.Pos()}
}

func ptrElemOr(t types.Type) types.Type {
	if t == nil {
		return nil
	}
	if p := ptrElem(t); p != nil {
		return p
	}
	return t
}

var curWorld *World

// callSites: the static calls of fn in the module (nil for a function whose value escapes is not handled: callers
// through function values are not found, so fn must not be used as a value)
func (w *World) callSites(fn *ssa.Function) []ssa.CallInstruction {
	if w.sites == nil {
		w.sites = map[*ssa.Function][]ssa.CallInstruction{}
		var scan func(f *ssa.Function)
		scan = func(f *ssa.Function) {
			for _, b := range f.Blocks {
				for _, ins := range b.Instrs {
					if ci, ok := ins.(ssa.CallInstruction); ok {
						if callee, ok := ci.Common().Value.(*ssa.Function); ok {
							w.sites[callee] = append(w.sites[callee], ci)
						}
					}
				}
			}
			for _, a := range f.AnonFuncs {
				scan(a)
			}
		}
		for _, f := range w.Funcs {
			if f.Parent() == nil {
				scan(f)
			}
		}
	}
	return w.sites[fn]
}

// immutableTable: the global is only read (loaded and then indexed / ranged / measured), never written after init.
func (w *World) immutableTable(gl *ssa.Global) bool {
	curWorld = w
	if w.immut == nil {
		w.immut = map[*ssa.Global]bool{}
		bad := map[*ssa.Global]bool{}
		seen := map[*ssa.Global]bool{}
		var scan func(fn *ssa.Function)
		scan = func(fn *ssa.Function) {
			isInit := fn.Name() == "init" && fn.Parent() == nil
			for _, b := range fn.Blocks {
				for _, ins := range b.Instrs {
					for _, op := range ins.Operands(nil) {
						g, ok := (*op).(*ssa.Global)
						if !ok {
							continue
						}
						seen[g] = true
						switch u := ins.(type) {
						case *ssa.UnOp:
							if !readOnlyUses(u, 0) {
								bad[g] = true
							}
						case *ssa.Store:
							if !(isInit && u.Addr == g) {
								bad[g] = true
							}
						case *ssa.IndexAddr:
							// &table[i] of an array-typed table: loads only
							if u.X != g {
								bad[g] = true
								break
							}
							for _, ar := range *u.Referrers() {
								if ld, ok := ar.(*ssa.UnOp); ok && ld.Op == token.MUL {
									continue
								}
								if _, ok := ar.(*ssa.DebugRef); ok {
									continue
								}
								if !isInit {
									bad[g] = true
								}
							}
						case *ssa.DebugRef:
						default:
							if !isInit {
								bad[g] = true
							}
						}
					}
				}
			}
			for _, a := range fn.AnonFuncs {
				scan(a)
			}
		}
		for _, sp := range w.SSAPkgs {
			for _, m := range sp.Members {
				if fn, ok := m.(*ssa.Function); ok {
					scan(fn)
				}
			}
		}
		for _, fn := range w.Funcs {
			if fn.Parent() == nil && fn.Signature.Recv() != nil {
				scan(fn)
			}
		}
		for g := range seen {
			if !bad[g] {
				w.immut[g] = true
			}
		}
	}
	return w.immut[gl]
}

// readOnlyUses: the loaded table value is only looked up, ranged over, measured or (for nested tables) read further.
func readOnlyUses(v ssa.Value, depth int) bool {
	refs := v.Referrers()
	if refs == nil || depth > 3 {
		return false
	}
	for _, r := range *refs {
		switch u := r.(type) {
		case *ssa.Lookup:
			if u.X != v {
				return false
			}
			if _, isMap := types.Unalias(u.Type()).Underlying().(*types.Map); isMap && !readOnlyUses(u, depth+1) {
				return false
			}
			if u.CommaOk {
				// the extracted value may be a nested map
				for _, er := range *u.Referrers() {
					if ex, ok := er.(*ssa.Extract); ok && ex.Index == 0 {
						if _, isMap := types.Unalias(ex.Type()).Underlying().(*types.Map); isMap && !readOnlyUses(ex, depth+1) {
							return false
						}
					}
				}
			}
		case *ssa.Range:
		case *ssa.Index, *ssa.DebugRef:
		case *ssa.IndexAddr:
			// &table[i] followed by loads only
			for _, ar := range *u.Referrers() {
				if _, ok := ar.(*ssa.UnOp); !ok {
					if _, ok := ar.(*ssa.DebugRef); !ok {
						return false
					}
				}
			}
		case *ssa.Call:
			if b, ok := u.Call.Value.(*ssa.Builtin); !ok || b.Name() != "len" {
				return false
			}
		case *ssa.Return:
			// returning a (nested) table is fine when every caller of the function only reads the result
			if curWorld == nil || depth > 2 {
				return false
			}
			for _, site := range curWorld.callSites(u.Parent()) {
				cv, isVal := site.(ssa.Value)
				if !isVal || !readOnlyUses(cv, depth+1) {
					return false
				}
			}
		default:
			return false
		}
	}
	return true
}

// ---- SMT rendering of table values ----

func (g *Gen) constToTerm(cv constant.Value, t types.Type) string {
	switch g.d.sortOf(t) {
	case "Int":
		return smtIntStr(constant.ToInt(cv).ExactString())
	case "Bool":
		if constant.BoolVal(cv) {
			return "true"
		}
		return "false"
	case "String":
		return smtString(constant.StringVal(cv))
	case "F64":
		f, _ := constant.Float64Val(cv)
		return fpLit64(f)
	}
	unsupp("table constant of type %s", t)
	return ""
}

func (g *Gen) tvalTerm(v *TVal) (string, bool) {
	if v == nil {
		return "", false
	}
	if v.Const != nil {
		return g.constToTerm(v.Const, v.Type), true
	}
	if v.Fields != nil {
		u := types.Unalias(v.Type).Underlying().(*types.Struct)
		g.d.sortOf(v.Type)
		var fs []string
		for k, fv := range v.Fields {
			if fv == nil {
				fs = append(fs, g.d.zero(u.Field(k).Type()))
				continue
			}
			t, ok := g.tvalTerm(fv)
			if !ok {
				return "", false
			}
			fs = append(fs, t)
		}
		if len(fs) == 0 {
			return "mk$" + typeName(v.Type), true
		}
		return "(mk$" + typeName(v.Type) + " " + strings.Join(fs, " ") + ")", true
	}
	return "", false
}

// tableFuncs declares has/val functions for an immutable map table with constant keys and renderable values.
func (g *Gen) tableFuncs(gl *ssa.Global) (has, val string, ok bool) {
	key := "tbl$" + sanitize(relPkg(gl.Pkg.Pkg.Path())+"."+gl.Name())
	if g.d.has("tbl:" + key) {
		return key + "$has", key + "$val", g.tblOK[key]
	}
	if g.tblOK == nil {
		g.tblOK = map[string]bool{}
	}
	g.d.add("tbl:"+key, "")
	mt, isMap := types.Unalias(ptrElem(gl.Type())).Underlying().(*types.Map)
	if !isMap || !g.w.immutableTable(gl) {
		return "", "", false
	}
	tv := g.w.tableLiteral(gl.Pkg.Pkg.Path(), gl.Name())
	if tv == nil || tv.Keys == nil {
		return "", "", false
	}
	ks, vs := g.d.sortOf(mt.Key()), g.d.sortOf(mt.Elem())
	hasT, valT := "false", g.d.zero(mt.Elem())
	type kv struct{ k, v string }
	var kvs []kv
	for i, k := range tv.Keys {
		if k == nil {
			return "", "", false
		}
		vt, ok := g.tvalTerm(tv.Elems[i])
		if !ok {
			return "", "", false
		}
		kvs = append(kvs, kv{g.constToTerm(k, mt.Key()), vt})
	}
	sort.SliceStable(kvs, func(a, b int) bool { return kvs[a].k < kvs[b].k })
	for _, e := range kvs {
		hasT = fmt.Sprintf("(ite (= k %s) true %s)", e.k, hasT)
		valT = fmt.Sprintf("(ite (= k %s) %s %s)", e.k, e.v, valT)
	}
	g.d.text["tbl:"+key] = fmt.Sprintf("(define-fun %s$has ((k %s)) Bool %s)\n(define-fun %s$val ((k %s)) %s %s)", key, ks, hasT, key, ks, vs, valT)
	g.tblOK[key] = true
	g.trusted["table "+gl.Name()+" is read from its composite literal; it is never written after package initialisation (checked by a scan of all module functions)"] = true
	return key + "$has", key + "$val", true
}

// ---- table obligations: a package-level table literal against a table transcribed from the RFC ----

type tableSpec struct {
	Table   string                     `json:"table"`  // "<relpkg>.<var>"
	Source  string                     `json:"source"` // where the expected content comes from
	Enc     string                     `json:"enc"`    // "runes2": expected "0n" means a struct of two runes
	Keys    []string                   `json:"rfc_keys"`
	Rows    map[string]json.RawMessage `json:"rows"`
	Props   []string                   `json:"properties"`
	Closed  bool                       `json:"closed"` // rows not listed must not exist (restricted to rfc_keys)
	Comment string                     `json:"comment"`
}

// constName finds the name of the constant of named type t with the given value.
func constName(t types.Type, v constant.Value) string {
	n, ok := types.Unalias(t).(*types.Named)
	if !ok || n.Obj().Pkg() == nil {
		return v.ExactString()
	}
	sc := n.Obj().Pkg().Scope()
	for _, name := range sc.Names() {
		if c, ok := sc.Lookup(name).(*types.Const); ok && types.Identical(c.Type(), t) && constant.Compare(c.Val(), token.EQL, v) {
			return name
		}
	}
	return v.ExactString()
}

// render gives a canonical text of a table value: numbers exactly, structs as [f1,f2], maps as {k:v,...}.
func renderTVal(v *TVal, keyType func(*TVal) types.Type) string {
	if v == nil {
		return "null"
	}
	if v.Const != nil {
		if v.Exact != "" {
			return v.Exact
		}
		if v.Const.Kind() == constant.String {
			return strconvQuote(constant.StringVal(v.Const))
		}
		return v.Const.ExactString()
	}
	if v.Ident != "" {
		s := v.Ident
		if len(v.Elems) > 0 {
			var as []string
			for _, e := range v.Elems {
				as = append(as, renderTVal(e, keyType))
			}
			s += "(" + strings.Join(as, ",") + ")"
		}
		return s
	}
	if v.Fields != nil {
		var fs []string
		for _, f := range v.Fields {
			fs = append(fs, renderTVal(f, keyType))
		}
		return "[" + strings.Join(fs, ",") + "]"
	}
	if v.Keys != nil || v.Elems != nil {
		kt := keyType(v)
		var es []string
		for i, k := range v.Keys {
			es = append(es, constName(kt, k)+":"+renderTVal(v.Elems[i], keyType))
		}
		sort.Strings(es)
		return "{" + strings.Join(es, ",") + "}"
	}
	if v.Type != nil {
		// an empty composite literal
		switch types.Unalias(v.Type).Underlying().(type) {
		case *types.Map, *types.Slice, *types.Array:
			return "{}"
		case *types.Struct:
			return "[]"
		}
	}
	return "?"
}

func strconvQuote(s string) string { return fmt.Sprintf("%q", s) }

func tableKeyType(v *TVal) types.Type {
	if v.KeyT != nil {
		return v.KeyT
	}
	switch u := types.Unalias(v.Type).Underlying().(type) {
	case *types.Map:
		return u.Key()
	}
	return types.Typ[types.Int]
}

// arrayIndexConstType: for [...]T{Const: v} literals the index constants' type is found from the AST; we fall back to int.
type tableRow struct {
	Name     string
	Actual   string
	Expected string
	OK       bool
	Pos      string
}

// checkTable compares the literal with the spec, one row per obligation.
func (w *World) checkTable(ts *tableSpec, idxType types.Type) ([]tableRow, error) {
	i := strings.LastIndex(ts.Table, ".")
	rel, name := ts.Table[:i], ts.Table[i+1:]
	pkgPath := modPath + "/" + rel
	tv := w.tableLiteral(pkgPath, name)
	if tv == nil {
		return nil, fmt.Errorf("table %s: no composite literal found", ts.Table)
	}
	kt := tableKeyType(tv)
	if _, isMap := types.Unalias(tv.Type).Underlying().(*types.Map); !isMap && idxType != nil {
		kt = idxType
	}
	inKeys := map[string]bool{}
	for _, k := range ts.Keys {
		inKeys[k] = true
	}
	actual := map[string]*TVal{}
	for k, key := range tv.Keys {
		actual[constName(kt, key)] = tv.Elems[k]
	}
	var rows []tableRow
	var names []string
	for n := range ts.Rows {
		names = append(names, n)
	}
	sort.Strings(names)
	keyTypeFn := func(v *TVal) types.Type { return tableKeyType(v) }
	for _, n := range names {
		var exp interface{}
		json.Unmarshal(ts.Rows[n], &exp)
		row := tableRow{Name: n}
		av := actual[n]
		if av != nil {
			row.Pos = w.Fset.Position(av.Pos).String()
		}
		switch e := exp.(type) {
		case map[string]interface{}:
			// nested map row: compare restricted to the RFC keys
			got := map[string]string{}
			if av != nil {
				for k, key := range av.Keys {
					cn := constName(tableKeyType(av), key)
					if len(ts.Keys) == 0 || inKeys[cn] {
						got[cn] = renderTVal(av.Elems[k], keyTypeFn)
					}
				}
			}
			want := map[string]string{}
			for k, v := range e {
				want[k] = encodeExpected(ts.Enc, v)
			}
			row.Actual, row.Expected = canonMap(got), canonMap(want)
		default:
			row.Expected = encodeExpected(ts.Enc, exp)
			row.Actual = renderTVal(av, keyTypeFn)
		}
		row.OK = row.Actual == row.Expected
		rows = append(rows, row)
	}
	if ts.Closed {
		var extra []string
		for n := range actual {
			if _, listed := ts.Rows[n]; !listed && (len(ts.Keys) == 0 || inKeys[n]) {
				extra = append(extra, n)
			}
		}
		sort.Strings(extra)
		rows = append(rows, tableRow{Name: "no-other-rows", Actual: strings.Join(extra, ","), Expected: "", OK: len(extra) == 0})
	}
	return rows, nil
}

func canonMap(m map[string]string) string {
	var ks []string
	for k := range m {
		ks = append(ks, k)
	}
	sort.Strings(ks)
	var es []string
	for _, k := range ks {
		es = append(es, k+":"+m[k])
	}
	return "{" + strings.Join(es, ",") + "}"
}

func encodeExpected(enc string, v interface{}) string {
	switch x := v.(type) {
	case string:
		if enc == "runes2" && len(x) == 2 {
			return fmt.Sprintf("[%d,%d]", x[0], x[1])
		}
		if enc == "raw" {
			return x
		}
		return strconvQuote(x)
	case float64:
		return fmt.Sprintf("%d", int64(x))
	case []interface{}:
		var es []string
		for _, e := range x {
			es = append(es, encodeExpected("raw", e))
		}
		return "[" + strings.Join(es, ",") + "]"
	case nil:
		return "null"
	}
	return fmt.Sprint(v)
}

// ---- footprint obligations: which functions read / write a struct field ----

type footprintSpec struct {
	Field   string   `json:"field"` // "<relpkg>.<Struct>.<field>"
	Writers []string `json:"writers"`
	Readers []string `json:"readers"`
	Why     string   `json:"why"`
}

func (w *World) fieldFootprint(field string) (readers, writers map[string]bool) {
	readers, writers = map[string]bool{}, map[string]bool{}
	parts := strings.Split(field, ".")
	fname := parts[len(parts)-1]
	sname := strings.Join(parts[:len(parts)-1], ".")
	for key, fn := range w.Funcs {
		for _, b := range fn.Blocks {
			for _, ins := range b.Instrs {
				fa, ok := ins.(*ssa.FieldAddr)
				if !ok {
					continue
				}
				st := ptrElem(fa.X.Type())
				if st == nil || typeName(st) != sanitize(sname) {
					continue
				}
				u := types.Unalias(st).Underlying().(*types.Struct)
				if fname != "*" && u.Field(fa.Field).Name() != fname {
					continue
				}
				isStore := false
				for _, r := range *fa.Referrers() {
					if s, ok := r.(*ssa.Store); ok && s.Addr == fa {
						isStore = true
					}
					// an element of a slice / array / map held in the field is assigned: field[i] = v
					if ld, ok := r.(*ssa.UnOp); ok && ld.Op == token.MUL && ld.Referrers() != nil {
						for _, r2 := range *ld.Referrers() {
							switch x := r2.(type) {
							case *ssa.IndexAddr:
								if x.X == ssa.Value(ld) && x.Referrers() != nil {
									for _, r3 := range *x.Referrers() {
										if s, ok := r3.(*ssa.Store); ok && s.Addr == ssa.Value(x) {
											isStore = true
										}
									}
								}
							case *ssa.MapUpdate:
								if x.Map == ssa.Value(ld) {
									isStore = true
								}
							}
						}
					}
				}
				if isStore {
					writers[key] = true
				} else {
					readers[key] = true
				}
			}
		}
	}
	return
}
