package main

import (
	"fmt"
	"go/ast"
	"go/parser"
	"os"
	"path/filepath"
	"regexp"
	"sort"
	"strconv"
	"strings"
)

type Clause struct {
	Target string // callsite clauses: name of the callee the clause applies to ("" = the function itself)
	Text string
	Expr ast.Expr
	Idx  int // ordinal within its kind
	Line string
}

type LoopSpec struct {
	Invariants []*Clause
	Decreases  *Clause
}

// Macro is a named contract expression: //@ define name(a, b) = expr
type Macro struct {
	Name   string
	Params []string
	Body   ast.Expr
	Text   string
}

var macros = map[string]*Macro{} // key: relpkg + "." + name

// axioms: named defining equations of uninterpreted spec functions, written in the contract language
// (//@ axiom name = expr); a function whose contract says "uses name" may assume it. key: relpkg + "." + name
var axioms = map[string]*Clause{}

type Contract struct {
	Key       string
	File      string
	Recv      string // name to use for receiver of interface-method contracts
	Requires  []*Clause
	Ensures   []*Clause
	Exsures   []*Clause
	Recovers  []*Clause // must hold at every normal return that was reached by recovering from a panic
	Preserves []*Clause
	Uses      []string  // names of axioms the proof of this function may assume
	Keeps     []string  // Go type expressions: heap components of these map/slice types are not modified even under "modifies *"
	Callsite  []*Clause // must hold (in the caller's terms) at every recursive call of the function to itself
	Implements string // key suffix of a function-type contract, e.g. "type:instFunc"
	Modifies  []*Clause
	ModAll    bool
	NoPanic   bool
	Assumed   bool // body not verified: contract is trusted
	Inline    bool // callers inline the body instead of using the contract
	Loops     map[int]*LoopSpec
	Decreases *Clause
	Params    []string // for interface methods / externals: parameter names
	Ghost     []string
	IsIface   bool
	Lemma     bool
}

var kwRe = regexp.MustCompile(`^(recovers|axiom|uses|define|implements|preserves|keeps|callsite|func|requires|ensures|exsures|modifies|nopanic|assumed|inline|loop|decreases|params|lemma)\b`)

// parseContracts reads all zz_verif_contracts.go files below repo.
func parseContracts(repo string) (map[string]*Contract, []string, error) {
	out := map[string]*Contract{}
	var files []string
	err := filepath.Walk(repo, func(p string, info os.FileInfo, err error) error {
		if err != nil {
			return nil
		}
		if info.IsDir() && (info.Name() == ".git" || info.Name() == "_build") {
			return filepath.SkipDir
		}
		if !info.IsDir() && strings.HasPrefix(info.Name(), "zz_verif_contracts") && strings.HasSuffix(info.Name(), ".go") {
			files = append(files, p)
		}
		return nil
	})
	if err != nil {
		return nil, nil, err
	}
	sort.Strings(files)
	for _, f := range files {
		rel, _ := filepath.Rel(repo, filepath.Dir(f))
		if err := parseContractFile(f, rel, out); err != nil {
			return nil, nil, err
		}
	}
	// assumed contracts of functions outside the module (documentation-derived): /verif/spec/externals.contracts
	ext := filepath.Join(verifDir(), "spec", "externals.contracts")
	if _, err := os.Stat(ext); err == nil {
		if err := parseContractFile(ext, "ext", out); err != nil {
			return nil, nil, err
		}
		for k, c := range out {
			if strings.HasPrefix(k, "ext.") {
				c.Assumed = true
			}
		}
	}
	return out, files, nil
}

func parseContractFile(path, relpkg string, out map[string]*Contract) error {
	b, err := os.ReadFile(path)
	if err != nil {
		return err
	}
	var cur *Contract
	type pending struct {
		kind string
		loop int
		text string
		line int
	}
	var pend *pending
	flush := func() error {
		if pend == nil || (cur == nil && pend.kind != "define" && pend.kind != "axiom") {
			pend = nil
			return nil
		}
		p := pend
		pend = nil
		text := strings.TrimSpace(p.text)
		target := ""
		if p.kind == "callsite" && strings.HasPrefix(text, "@") {
			fs := strings.SplitN(text, " ", 2)
			if len(fs) == 2 {
				target, text = fs[0][1:], strings.TrimSpace(fs[1])
			}
		}
		mk := func() (*Clause, error) {
			e, err := parseContractExpr(text)
			if err != nil {
				return nil, fmt.Errorf("%s:%d: %v in %q", path, p.line, err, text)
			}
			return &Clause{Text: text, Expr: e, Target: target, Line: fmt.Sprintf("%s:%d", path, p.line)}, nil
		}
		switch p.kind {
		case "axiom":
			i := strings.Index(text, "=")
			if i < 0 {
				return fmt.Errorf("%s:%d: axiom needs 'name = expr'", path, p.line)
			}
			name, body := strings.TrimSpace(text[:i]), strings.TrimSpace(text[i+1:])
			e, err := parseContractExpr(body)
			if err != nil {
				return fmt.Errorf("%s:%d: %v in %q", path, p.line, err, body)
			}
			axioms[relpkg+"."+name] = &Clause{Text: body, Expr: e, Line: fmt.Sprintf("%s:%d", path, p.line)}
			return nil
		case "define":
			i := strings.Index(text, "=")
			if i < 0 {
				return fmt.Errorf("%s:%d: define needs '='", path, p.line)
			}
			head, body := strings.TrimSpace(text[:i]), strings.TrimSpace(text[i+1:])
			he, err := parseContractExpr(head)
			if err != nil {
				return fmt.Errorf("%s:%d: %v", path, p.line, err)
			}
			m := &Macro{Text: body}
			switch h := he.(type) {
			case *ast.CallExpr:
				m.Name = h.Fun.(*ast.Ident).Name
				for _, a := range h.Args {
					m.Params = append(m.Params, a.(*ast.Ident).Name)
				}
			case *ast.Ident:
				m.Name = h.Name
			}
			m.Body, err = parseContractExpr(body)
			if err != nil {
				return fmt.Errorf("%s:%d: %v in %q", path, p.line, err, body)
			}
			macros[relpkg+"."+m.Name] = m
			return nil
		case "requires", "ensures", "exsures", "modifies", "decreases", "preserves", "callsite", "recovers":
			if p.kind == "modifies" && text == "*" {
				cur.ModAll = true
				return nil
			}
			c, err := mk()
			if err != nil {
				return err
			}
			switch p.kind {
			case "requires":
				c.Idx = len(cur.Requires)
				cur.Requires = append(cur.Requires, c)
			case "ensures":
				if os.Getenv("GVC_SPLIT") != "" {
					// debugging aid: one obligation per top-level conjunct
					var parts []ast.Expr
					var split func(e ast.Expr)
					split = func(e ast.Expr) {
						if pe, ok := e.(*ast.ParenExpr); ok {
							split(pe.X)
							return
						}
						if be, ok := e.(*ast.BinaryExpr); ok && be.Op.String() == "&&" {
							split(be.X)
							split(be.Y)
							return
						}
						parts = append(parts, e)
					}
					split(c.Expr)
					for _, pe := range parts {
						cc := &Clause{Text: exprString(pe), Expr: pe, Line: c.Line, Idx: len(cur.Ensures)}
						cur.Ensures = append(cur.Ensures, cc)
					}
					return nil
				}
				c.Idx = len(cur.Ensures)
				cur.Ensures = append(cur.Ensures, c)
			case "exsures":
				c.Idx = len(cur.Exsures)
				cur.Exsures = append(cur.Exsures, c)
			case "recovers":
				c.Idx = len(cur.Recovers)
				cur.Recovers = append(cur.Recovers, c)
			case "preserves":
				c.Idx = len(cur.Preserves)
				cur.Preserves = append(cur.Preserves, c)
			case "callsite":
				c.Idx = len(cur.Callsite)
				cur.Callsite = append(cur.Callsite, c)
			case "modifies":
				c.Idx = len(cur.Modifies)
				cur.Modifies = append(cur.Modifies, c)
			case "decreases":
				cur.Decreases = c
			}
		case "loopinv", "loopdec":
			c, err := mk()
			if err != nil {
				return err
			}
			ls := cur.Loops[p.loop]
			if ls == nil {
				ls = &LoopSpec{}
				cur.Loops[p.loop] = ls
			}
			if p.kind == "loopinv" {
				c.Idx = len(ls.Invariants)
				ls.Invariants = append(ls.Invariants, c)
			} else {
				ls.Decreases = c
			}
		}
		return nil
	}
	lines := strings.Split(string(b), "\n")
	for i, ln := range lines {
		t := strings.TrimSpace(ln)
		if strings.HasPrefix(t, "// @") {
			t = "//@" + t[4:]
		}
		if !strings.HasPrefix(t, "//@") {
			continue
		}
		t = strings.TrimSpace(strings.TrimPrefix(t, "//@"))
		if t == "" {
			continue
		}
		if !kwRe.MatchString(t) {
			if pend != nil {
				pend.text += " " + t
				continue
			}
			return fmt.Errorf("%s:%d: unexpected contract line %q", path, i+1, t)
		}
		if err := flush(); err != nil {
			return err
		}
		kw := kwRe.FindString(t)
		rest := strings.TrimSpace(t[len(kw):])
		switch kw {
		case "func":
			key := relpkg + "." + rest
			if relpkg == "." {
				key = "." + rest
			}
			if _, dup := out[key]; dup {
				return fmt.Errorf("%s:%d: duplicate contract for %s", path, i+1, key)
			}
			cur = &Contract{Key: key, File: path, Loops: map[int]*LoopSpec{}}
			out[key] = cur
		case "implements":
			cur.Implements = rest
		case "uses":
			cur.Uses = append(cur.Uses, strings.Fields(strings.ReplaceAll(rest, ",", " "))...)
		case "keeps":
			cur.Keeps = append(cur.Keeps, rest)
		case "nopanic":
			cur.NoPanic = true
		case "assumed":
			cur.Assumed = true
		case "inline":
			cur.Inline = true
		case "lemma":
			cur.Lemma = true
		case "params":
			cur.Params = strings.Fields(strings.ReplaceAll(rest, ",", " "))
		case "loop":
			fs := strings.Fields(rest)
			if len(fs) < 3 {
				return fmt.Errorf("%s:%d: bad loop clause", path, i+1)
			}
			n, err := strconv.Atoi(fs[0])
			if err != nil {
				return fmt.Errorf("%s:%d: bad loop ordinal", path, i+1)
			}
			k := "loopinv"
			if fs[1] == "decreases" {
				k = "loopdec"
			} else if fs[1] != "invariant" {
				return fmt.Errorf("%s:%d: bad loop clause kind %s", path, i+1, fs[1])
			}
			pend = &pending{kind: k, loop: n, text: strings.Join(fs[2:], " "), line: i + 1}
		default:
			pend = &pending{kind: kw, text: rest, line: i + 1}
		}
	}
	return flush()
}

// parseContractExpr parses a Go-syntax expression; "==>" is not supported, use implies(a,b).
func parseContractExpr(s string) (ast.Expr, error) {
	return parser.ParseExpr(s)
}
