#!/bin/sh
# usage: checks/run.sh <property-id> <quick|thorough>
# Rebuilds the verification conditions from /repo's working tree and discharges every claimed obligation.
cd "$(dirname "$0")/.." || exit 2
export GOFLAGS=-mod=mod GOPROXY=off
unset GOSUMDB GOTOOLCHAIN
if [ ! -x bin/gvc ] || [ ! -x bin/goyacc ]; then
  (cd gvc && go build -o ../bin/gvc . && go build -o ../bin/goyacc golang.org/x/tools/cmd/goyacc) || exit 2
fi
exec ${GVC_BIN:-bin/gvc} check -property "$1" -tier "${2:-quick}"
