#!/bin/sh
# usage: tools/runall.sh [quick|thorough]   -- runs every check, prints its last line, its exit code and any alarm lines
tier=${1:-quick}
cd /verif || exit 2
bad=0
for p in C01 C02 C03 C04 C05 C06 C07 C08 C09 C10 C11 C12 C13 C14 C15 C16 C17 C18 C19 C20; do
  out=$(checks/run.sh $p $tier 2>&1); rc=$?
  echo "$out" | grep "^VIOLATION\|^BROKEN\|^SOLVER-DIS" | cut -c1-200
  echo "$(echo "$out" | tail -1)  [exit $rc]"
  [ $rc -ne 0 ] && bad=1
done
exit $bad
