#!/bin/sh
# Block-level vacuity review (maintenance tool, not a registered check): for every function under contract, ask the
# solvers whether the start of each basic block and each return can be reached under the assumptions the generator has
# made up to there. Prints the ones that are PROVABLY unreachable (dead code, or a contradiction between an assumed
# contract and the encoding - each one has to be looked at) and the number examined.
cd "$(dirname "$0")/.." || exit 2
export GOFLAGS=-mod=mod GOPROXY=off
keys=$(awk '{for(i=2;i<=NF;i++) print $i}' props.map | grep -v "^[a-z]*:" | sort -u)
GVC_REACH=1 bin/gvc vc $keys 2>&1 | grep "^canary.*reach" > /var/tmp/gvc_reach.$$ 
echo "examined: $(wc -l < /var/tmp/gvc_reach.$$)"
grep " unsat " /var/tmp/gvc_reach.$$ | cut -c1-220
echo "provably unreachable: $(grep -c ' unsat ' /var/tmp/gvc_reach.$$)"
rm -f /var/tmp/gvc_reach.$$
