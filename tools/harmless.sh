#!/bin/sh
# usage: tools/harmless.sh   -- applies selftest/harmless.diff (comments in front of 15 package clauses, a renamed local,
# two reordered independent statements, a commuted condition) to a scratch worktree of /repo and runs every quick check
# on it: all must exit 0 (no alarm on code where the properties hold). The worktree is removed afterwards.
W=/var/tmp/gvc-harmless-$$
git -C /repo worktree add -q --detach $W HEAD || exit 2
git -C $W apply /verif/selftest/harmless.diff || { git -C /repo worktree remove --force $W; echo "harmless.diff no longer applies"; exit 2; }
cd /verif && GVC_REPO=$W tools/runall.sh quick
git -C /repo worktree remove --force $W
echo "note: the evidence files now describe the scratch tree; run tools/runall.sh quick again"
