#!/bin/sh
# usage: tools/vc.sh <function key>...   -- prints every obligation that is not discharged, and any error
cd /verif && ${GVC:-bin/gvc} vc "$@" 2>&1 | grep -v "^[a-z.]* *unsat  " | grep -v "^  inlined:\|^  trusted:\|^  havocked:\|^canary" | cut -c1-${W:-180}
