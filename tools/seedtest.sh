#!/bin/sh
# usage: tools/seedtest.sh <patch.diff> <property-id>...
# Applies a seeded change to /repo, runs the quick checks of the given properties, and restores /repo.
patch="$1"; shift
cd /repo || exit 2
if ! git diff --quiet; then echo "/repo has uncommitted changes"; exit 2; fi
git apply "$patch" || { echo "patch does not apply"; exit 2; }
for p in "$@"; do
  (cd /verif && checks/run.sh "$p" quick 2>&1 | grep -v "^KNOWN-FINDING" | tail -4)
done
git -C /repo checkout -- .
# evidence files must describe the unchanged tree: regenerate them
for p in "$@"; do (cd /verif && checks/run.sh "$p" quick >/dev/null 2>&1); done
