#!/bin/sh
# usage: tools/confirm_seed.sh <seed-id e.g. C01-A> <patch.diff> <kind: test|prog> <repo-relative dir for the demo> <demo file>
# Confirms in a scratch worktree of /repo (outside /repo and /verif) that the seeded change builds, keeps the 133 pinned
# tests passing, and that its demonstration passes without the change and fails with it. Stores the seed under /verif/seeded/<id>/.
id="$1"; patch="$2"; kind="$3"; ddir="$4"; demo="$5"
export GOFLAGS=-mod=mod GOPROXY=off
W=/tmp/wt-confirm-$$
git -C /repo worktree add -q --detach $W HEAD || exit 2
cd $W || exit 2
/verif/bin/goyacc -p leafref -o xpath/grammars/leafref/leafref.go xpath/grammars/leafref/leafref.y >/dev/null 2>&1; rm -f y.output
mkdir -p $ddir && cp "$demo" $ddir/
run_demo() {
  if [ "$kind" = test ]; then go test -vet=off -count=1 -run 'Demo|demo|Zz|ZZ|Seed' ./$ddir/ 2>&1 | tail -15; else (cd $ddir && go run . 2>&1 | tail -15; ); fi
}
passset() { go test -json -vet=off -count=1 ./xpath/ ./xpath/xutils/ ./xpath/grammars/expr/ ./xpath/grammars/path_eval/ 2>/dev/null | python3 -c "
import sys,json
b=set(json.load(open('/root/.vp/BASELINE.json'))['stable_pass']); got=set()
for l in sys.stdin:
    try: e=json.loads(l)
    except: continue
    if e.get('Action')=='pass' and e.get('Test') and '/' not in e['Test']: got.add(e['Package']+'::'+e['Test'])
print('pinned tests passing:',len(b&got),'of',len(b))"; }
TESTS=$(grep -o '^func Test[A-Za-z0-9_]*' "$demo" | sed 's/^func //' | paste -sd'|')
echo "--- demo WITHOUT the change ($TESTS)"
OUT0=$(if [ "$kind" = test ]; then go test -vet=off -count=1 -run "^($TESTS)\$" ./$ddir/ 2>&1 | tail -6; else (cd $ddir && go run . >/tmp/confirm0.$$ 2>&1; echo "exit=$?"; tail -3 /tmp/confirm0.$$); fi)
echo "$OUT0"
git apply "$patch" || { echo "PATCH DOES NOT APPLY"; cd /; git -C /repo worktree remove --force $W; exit 3; }
go build ./... || { echo "BUILD FAILS"; }
echo "--- pinned suite WITH the change"; PS=$(passset); echo "$PS"
echo "--- demo WITH the change"
OUT1=$(if [ "$kind" = test ]; then go test -vet=off -count=1 -run "^($TESTS)\$" ./$ddir/ 2>&1 | tail -8; else (cd $ddir && timeout 120 go run . >/tmp/confirm1.$$ 2>&1; echo "exit=$?"; tail -3 /tmp/confirm1.$$); fi)
echo "$OUT1"
mkdir -p /verif/seeded/$id && cp "$patch" /verif/seeded/$id/patch.diff && mkdir -p /verif/seeded/$id/demo && cp "$demo" /verif/seeded/$id/demo/
printf '%s\n' "demo without change:" "$OUT0" "" "pinned suite with change: $PS" "" "demo with change:" "$OUT1" > /verif/seeded/$id/confirmation.txt
cd /; git -C /repo worktree remove --force $W; rm -f /tmp/confirm0.$$ /tmp/confirm1.$$
