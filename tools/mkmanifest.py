#!/usr/bin/env python3
"""Writes /verif/MANIFEST.json from the table below (kept in one place so it stays valid)."""
import json, os, subprocess
V = os.path.dirname(os.path.dirname(os.path.abspath(__file__)))
claimed = json.load(open(os.path.join(V, "tools", "claims.json")))
props = [json.loads(l) for l in open(os.path.join(V, "properties.jsonl"))]
hooks = subprocess.run(["git", "-C", "/repo", "log", "--format=%H %s", "--grep=^verif-hook:"], capture_output=True, text=True).stdout.strip().splitlines()
m = {
 "version": 1,
 "setup_cmd": "cd /verif/gvc && unset GOSUMDB GOTOOLCHAIN; GOFLAGS=-mod=mod GOPROXY=off go build -o ../bin/gvc . && GOFLAGS=-mod=mod GOPROXY=off go build -o ../bin/goyacc golang.org/x/tools/cmd/goyacc",
 "hooks": {
  "guard": "verif",
  "enable": "go build -tags verif (gvc loads /repo with -tags=verif; the guarded files zz_verif_contracts.go contain comments only)",
  "baseline_off_cmd": "cd /repo && GOFLAGS=-mod=mod GOPROXY=off go test -json -vet=off -count=1 -timeout 25m ./...",
  "source_commits": [h.split()[0] for h in hooks],
  "add_only": True,
 },
 "engines": [{"name": "gvc", "path": "/verif/gvc", "serves_properties": sorted(claimed.keys()),
   "kind_free_text": "self-built deductive verifier for Go: contracts (//@ requires/ensures/invariant/decreases/modifies/nopanic in /repo/**/zz_verif_contracts.go, tag verif) -> weakest-precondition style verification conditions over go/ssa -> SMT-LIB -> z3 5.1 / cvc5 1.0 / z3 4.8.12"}],
 "checks": [],
 "not_applicable": [],
 "notes": "Technique family: contract-based deductive verification of the real code. See DESIGN.md. obligations.lock lists the claimed obligations; known_findings.txt the recorded genuine defects.",
}
for p in props:
    pid = p["id"]
    if pid in claimed:
        c = claimed[pid]
        m["checks"].append({
          "property_id": pid,
          "quick_cmd": f"checks/run.sh {pid} quick",
          "thorough_cmd": f"checks/run.sh {pid} thorough",
          "evidence_file": f"/verif/evidence/{pid}.json",
          "engine": "gvc",
          "level_claimed": {"category": "proof", "text": c["text"], "design_ref": c.get("design_ref", "DESIGN.md section 3 " + pid)},
          "level_note": c["note"],
          "technique": c.get("technique", "contract-based deductive verification: per-function contracts on the real Go code, VCs generated from go/ssa, discharged by z3/cvc5"),
        })
    else:
        na = json.load(open(os.path.join(V, "tools", "not_applicable.json")))
        m["not_applicable"].append({"property_id": pid, "reason": na.get(pid, "not decided by this framework yet: no contract within reach discharged so far (see DESIGN.md)")})
json.dump(m, open(os.path.join(V, "MANIFEST.json"), "w"), indent=1)
print("wrote MANIFEST.json:", len(m["checks"]), "checks,", len(m["not_applicable"]), "not applicable")
