#!/usr/bin/env python3
"""Runs every seeded change in /verif/seeded against the quick check of its property and records the outcome in meta.json.
usage: tools/seed_status.py [seed-id ...]"""
import json, os, subprocess, sys, glob
V='/verif'
NEEDS=json.load(open(V+'/seeded/needs.json'))
def run(cmd, **kw): return subprocess.run(cmd, shell=True, capture_output=True, text=True, **kw)
ids = sys.argv[1:] or sorted(os.path.basename(d) for d in glob.glob(V+'/seeded/C*-*'))
assert run('git -C /repo diff --quiet').returncode==0, '/repo dirty'
summary=[]
for sid in ids:
    d=f'{V}/seeded/{sid}'; prop=sid.split('-')[0]
    if os.path.exists(d+'/neutralised.txt'):
        status={'applies':True,'neutralised':True,'note':open(d+'/neutralised.txt').read().strip()}
        meta={'seed':sid,'breaks_property':prop,'needs_to_manifest':NEEDS.get(sid,{}).get('needs',''),'change':NEEDS.get(sid,{}).get('change',''),'result':status}
        json.dump(meta,open(d+'/meta.json','w'),indent=1)
        print(sid,'NEUTRALISED'); continue
    a=run(f'git -C /repo apply {d}/patch.diff')
    if a.returncode!=0:
        status={'applies':False,'note':'patch no longer applies to /repo HEAD (the code it touched was changed by a later fix: commit); detection must be re-checked with an equivalent change'}
        out=''
    else:
        r=run(f'cd {V} && GVC_FAST=1 checks/run.sh {prop} quick')
        out=r.stdout
        vio=[l for l in out.splitlines() if l.startswith('VIOLATION')]
        status={'applies':True,'exit':r.returncode,'caught':r.returncode==1 and bool(vio),'violations':[l.split('obligation=')[1] if 'obligation=' in l else l for l in vio]}
        run('git -C /repo checkout -- .')
    meta={'seed':sid,'breaks_property':prop,'needs_to_manifest':NEEDS.get(sid,{}).get('needs',''),'change':NEEDS.get(sid,{}).get('change',''),
          'confirmed_by':'tools/confirm_seed.sh in a scratch worktree: builds, 133 pinned tests pass, demo passes without and fails with the change (see confirmation.txt)',
          'checked_with':f'git -C /repo apply patch.diff; GVC_FAST=1 checks/run.sh {prop} quick (verdict only: no counterexample extraction, no replay); git -C /repo checkout -- .','result':status}
    json.dump(meta,open(d+'/meta.json','w'),indent=1)
    summary.append((sid,status.get('caught'),status.get('violations',status.get('note'))))
    print(sid, 'CAUGHT' if status.get('caught') else ('N/A' if not status.get('applies') else 'missed'), status.get('violations',''))
# evidence must describe the unchanged tree
for prop in sorted({s.split('-')[0] for s in ids}):
    run(f'cd {V} && checks/run.sh {prop} quick')
