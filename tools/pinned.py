#!/usr/bin/env python3
"""Run the pinned test suite (stable_pass list of /root/.vp/BASELINE.json) on a tree and report the ones not passing."""
import json, subprocess, sys, os
repo = sys.argv[1] if len(sys.argv) > 1 else '/repo'
want = set(json.load(open('/root/.vp/BASELINE.json'))['stable_pass'])
env = dict(os.environ, GOFLAGS='-mod=mod', GOPROXY='off')
out = subprocess.run(['go', 'test', '-json', '-vet=off', '-count=1', './...'], cwd=repo, env=env, capture_output=True, text=True).stdout
res = {}
for ln in out.splitlines():
    try:
        e = json.loads(ln)
    except Exception:
        continue
    if e.get('Test') and e.get('Action') in ('pass', 'fail', 'skip'):
        res[e['Package'] + '::' + e['Test']] = e['Action']
bad = sorted(t for t in want if res.get(t) != 'pass')
print(f'pinned: {len(want)} tests, {len(want) - len(bad)} pass')
for t in bad:
    print('NOT PASSING', t, res.get(t))
sys.exit(1 if bad else 0)
