#!/usr/bin/env python3
"""Regenerates the generated blocks of DESIGN.md section 8 (claims, findings, seeded changes)
from tools/claims.json, props.map, obligations.lock, known_findings.txt and seeded/*/meta.json."""
import json, glob, re, collections
V='/verif'
s=open(V+'/DESIGN.md').read()
def block(name, text):
    global s
    b,e=f'<!-- BEGIN:{name} -->',f'<!-- END:{name} -->'
    body=f'{b}\n{text.rstrip()}\n{e}'
    if f'@@{name}@@' in s: s=s.replace(f'@@{name}@@',body)
    else: s=re.sub(re.escape(b)+'.*?'+re.escape(e),lambda m:body,s,flags=re.S)
claims=json.load(open(V+'/tools/claims.json'))
lock=collections.Counter(); funcs=collections.defaultdict(set)
for l in open(V+'/obligations.lock'):
    f=l.split()
    if len(f)>=3 and not l.startswith('#'): lock[f[0]]+=1; funcs[f[0]].add(f[1])
out=[]
for pid in sorted(claims):
    c=claims[pid]
    out.append(f"**{pid}** - {lock[pid]} locked obligations over {len(funcs[pid])} functions / tables / grammars.\n{c['text']}\n*Not decided:* {c['note']}\n")
block('CLAIMS','\n'.join(out))
fx=[l[len('fixed: '):].strip() for l in open(V+'/known_findings.txt') if l.startswith('fixed:')]
block('FINDINGS','\n'.join('* '+re.sub(r'^property=(C\d+) (\w+) ',r'\1, fix commit \2: ',l) for l in fx))
rows=['| seed | change | needs | result | failing obligations |','|---|---|---|---|---|']
for f in sorted(glob.glob(V+'/seeded/C*-*/meta.json')):
    m=json.load(open(f)); r=m['result']
    res='caught' if r.get('caught') else ('no longer breaks the property (see neutralised.txt)' if r.get('neutralised') else ('patch no longer applies' if not r.get('applies') else '**missed**'))
    v=[x.replace(' no-failing-input-found','') for x in r.get('violations',[])]
    vs='; '.join(v[:3])+(f' (+{len(v)-3} more)' if len(v)>3 else '')
    rows.append(f"| {m['seed']} | {m['change']} | {m['needs_to_manifest']} | {res} | {vs} |")
block('SEEDS','\n'.join(rows))
open(V+'/DESIGN.md','w').write(s)
